#!/usr/bin/env python
"""Candidate 3: recovery sweep vs. pre-declared synthetic (before/after) stages.

Property: running the recovery sweep at any moment of a healthy run changes no
outcome and makes no task execute an extra time.

For each scenario a control run (no sweep) is recorded: the task execution
order, per-task execution counts and the final workflow/stage statuses.  Then,
for every injection point k ("sweep after message #k was handled"), the same
workflow is run on a fresh temp SQLite database, k messages are handled by the
real QueueProcessor, WorkflowRecovery.recover_pending_workflows() is run once,
and the queue is drained in FIFO order.  Any difference against the control
(order, extra execution, final status) is reported.

Exit 1 if a difference is observed at any injection point, else 0.
REPO_ROOT env var selects the source tree (default /repo).
"""

from __future__ import annotations

import logging
import os
import sys
import tempfile
import time
from datetime import timedelta

REPO_ROOT = os.environ.get("REPO_ROOT", "/repo")
sys.path.insert(0, os.path.join(REPO_ROOT, "src"))

import stabilize  # noqa: E402
from stabilize import (  # noqa: E402
    Orchestrator,
    QueueProcessor,
    SqliteQueue,
    SqliteWorkflowStore,
    StageExecution,
    Task,
    TaskRegistry,
    TaskResult,
)
from stabilize.models.stage import SyntheticStageOwner  # noqa: E402
from stabilize.models.task import TaskExecution  # noqa: E402
from stabilize.models.workflow import Workflow  # noqa: E402
from stabilize.persistence.connection import ConnectionManager, SingletonMeta  # noqa: E402
from stabilize.queue.processor.config import QueueProcessorConfig  # noqa: E402
from stabilize.recovery import WorkflowRecovery  # noqa: E402

logging.disable(logging.CRITICAL)

ORDER: list[str] = []


class Rec(Task):
    def execute(self, stage: StageExecution) -> TaskResult:
        ORDER.append(stage.ref_id)
        return TaskResult.success(outputs={f"ran_{stage.ref_id}": True})


def st(ref: str, ntasks: int = 1, **kw) -> StageExecution:
    tasks = [
        TaskExecution.create(f"{ref}-task{i + 1}", "rec", stage_start=(i == 0), stage_end=(i == ntasks - 1))
        for i in range(ntasks)
    ]
    return StageExecution(ref_id=ref, name=ref, tasks=tasks, **kw)


def wf_after() -> Workflow:
    """P (1 task) with a pre-declared STAGE_AFTER child A.  Healthy order: P, A."""
    p = st("P")
    a = st("A", synthetic_stage_owner=SyntheticStageOwner.STAGE_AFTER)
    wf = Workflow.create(application="tri3", name="after", stages=[p, a])
    a.parent_stage_id = p.id
    return wf


def wf_before_waiting() -> Workflow:
    """U -> P; P has a pre-declared STAGE_BEFORE child B.  Healthy order: U, B, P."""
    u = st("U")
    p = st("P", requisite_stage_ref_ids={"U"})
    b = st("B", synthetic_stage_owner=SyntheticStageOwner.STAGE_BEFORE)
    wf = Workflow.create(application="tri3", name="before", stages=[u, p, b])
    b.parent_stage_id = p.id
    return wf


def wf_before_and_after() -> Workflow:
    """U -> P; P has pre-declared STAGE_BEFORE B and STAGE_AFTER A.  Order: U, B, P, A."""
    u = st("U")
    p = st("P", requisite_stage_ref_ids={"U"})
    b = st("B", synthetic_stage_owner=SyntheticStageOwner.STAGE_BEFORE)
    a = st("A", synthetic_stage_owner=SyntheticStageOwner.STAGE_AFTER)
    wf = Workflow.create(application="tri3", name="before-after", stages=[u, p, b, a])
    b.parent_stage_id = p.id
    a.parent_stage_id = p.id
    return wf


def wf_after_chain() -> Workflow:
    """P with two chained STAGE_AFTER children A1 -> A2.  Order: P, A1, A2."""
    p = st("P")
    a1 = st("A1", synthetic_stage_owner=SyntheticStageOwner.STAGE_AFTER)
    a2 = st("A2", synthetic_stage_owner=SyntheticStageOwner.STAGE_AFTER, requisite_stage_ref_ids={"A1"})
    wf = Workflow.create(application="tri3", name="after-chain", stages=[p, a1, a2])
    a1.parent_stage_id = p.id
    a2.parent_stage_id = p.id
    return wf


def wf_after_two_tasks() -> Workflow:
    """P (2 tasks) with a pre-declared STAGE_AFTER child A.  Healthy order: P, P, A."""
    p = st("P", ntasks=2)
    a = st("A", synthetic_stage_owner=SyntheticStageOwner.STAGE_AFTER)
    wf = Workflow.create(application="tri3", name="after2", stages=[p, a])
    a.parent_stage_id = p.id
    return wf


def wf_before_waiting_two_tasks() -> Workflow:
    """U (2 tasks) -> P; P has a pre-declared STAGE_BEFORE child B.  Order: U, U, B, P."""
    u = st("U", ntasks=2)
    p = st("P", requisite_stage_ref_ids={"U"})
    b = st("B", synthetic_stage_owner=SyntheticStageOwner.STAGE_BEFORE)
    wf = Workflow.create(application="tri3", name="before2", stages=[u, p, b])
    b.parent_stage_id = p.id
    return wf


SCENARIOS = {
    "after-child-of-2-task-parent": wf_after_two_tasks,
    "before-child-of-parent-waiting-for-2-task-upstream": wf_before_waiting_two_tasks,
    "after-child": wf_after,
    "before-child-of-waiting-parent": wf_before_waiting,
    "before-and-after": wf_before_and_after,
    "after-chain": wf_after_chain,
}


def run(make_wf, sweep_after: int | None):
    """Return (order, statuses, messages handled, errors, sweep summary)."""
    ORDER.clear()
    tmp = tempfile.mkdtemp(prefix="tri3-c3-")
    cs = f"sqlite:///{tmp}/wf.db"
    store = SqliteWorkflowStore(connection_string=cs, create_tables=True)
    queue = SqliteQueue(connection_string=cs, table_name="queue_messages", max_attempts=4)
    queue._create_table()
    reg = TaskRegistry()
    reg.register("rec", Rec)
    processor = QueueProcessor(
        queue,
        config=QueueProcessorConfig(retry_delay=timedelta(milliseconds=1)),
        store=store,
        task_registry=reg,
    )
    wf = make_wf()
    store.store(wf)
    Orchestrator(queue).start(wf)

    handled = 0
    errors: list[str] = []
    sweep = None
    start = time.monotonic()

    def maybe_sweep() -> None:
        nonlocal sweep
        if sweep_after is not None and sweep is None and handled == sweep_after:
            res = WorkflowRecovery(store, queue).recover_pending_workflows()
            sweep = "; ".join(f"{r.status}: {r.message}" for r in res) or "no workflows"

    maybe_sweep()
    while time.monotonic() - start < 20.0 and queue.size() > 0:
        try:
            if processor.process_one():
                handled += 1
                maybe_sweep()
            else:
                if queue.check_and_move_expired() == 0:
                    time.sleep(0.005)
        except Exception as e:  # noqa: BLE001
            errors.append(f"{type(e).__name__}: {e}")

    result = store.retrieve(wf.id)
    statuses = {"<workflow>": result.status.name}
    statuses.update({s.ref_id: s.status.name for s in result.stages})
    order = list(ORDER)
    dlq = len(queue.list_dlq())
    if dlq:
        errors.append(f"{dlq} message(s) in DLQ")
    store.close()
    SingletonMeta.reset(ConnectionManager)
    return order, statuses, handled, errors, sweep


def main() -> int:
    print(f"stabilize from {os.path.dirname(stabilize.__file__)}")
    bad = 0
    for name, make_wf in SCENARIOS.items():
        c_order, c_status, n, c_err, _ = run(make_wf, None)
        print(f"=== scenario {name}")
        print(f"    control: order={c_order} statuses={c_status} messages={n} errors={c_err}")
        diffs = 0
        for k in range(0, n + 1):
            order, status, handled, errs, sweep = run(make_wf, k)
            problems = []
            if order != c_order:
                dup = sorted({r for r in order if order.count(r) > c_order.count(r)})
                if dup:
                    problems.append(f"task(s) of {dup} executed an extra time")
                if [r for i, r in enumerate(order) if r not in order[:i]] != c_order:
                    problems.append("execution ORDER differs")
                if not problems:
                    problems.append("execution log differs")
            if status != c_status:
                problems.append(f"final statuses differ: {status}")
            if errs:
                problems.append(f"handler errors: {sorted(set(errs))}")
            if problems:
                diffs += 1
                print(f"    sweep after message #{k}: DIFFERENT  order={order}  [{sweep}]")
                for p in problems:
                    print(f"        - {p}")
        if diffs == 0:
            print(f"    all {n + 1} injection points: identical to control")
        bad += diffs
    print(f"TOTAL differing injection points: {bad}")
    return 1 if bad else 0


if __name__ == "__main__":
    sys.exit(main())
