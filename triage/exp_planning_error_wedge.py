"""A StageDefinitionBuilder that raises while planning leaves the stage RUNNING for good (C05).

StartStage claims the stage (RUNNING), _plan_stage calls builder.before_stages() which raises. The non-transient error branch
stores the stage unchanged (still RUNNING, task NOT_STARTED) and pushes CompleteStage; CompleteStage derives RUNNING from the
NOT_STARTED task, treats the message as 'children still in flight' and drops it. Queue empty, stage and workflow RUNNING.

exit 1 = wedge reproduced, exit 0 = the stage was failed and the workflow reached a final status.
"""
import logging
import os
import sys
import tempfile

REPO_ROOT = os.environ.get("REPO_ROOT", "/repo")
sys.path.insert(0, os.path.join(REPO_ROOT, "src"))

from stabilize import Orchestrator, QueueProcessor, SqliteQueue, SqliteWorkflowStore, StageExecution, Task, TaskExecution, TaskRegistry, TaskResult, Workflow  # noqa: E402
from stabilize.stages.builder import StageDefinitionBuilder, get_default_factory  # noqa: E402

logging.disable(logging.CRITICAL)


class Ok(Task):
    def execute(self, stage):
        return TaskResult.success()


class Broken(StageDefinitionBuilder):
    @property
    def type(self) -> str:
        return "broken"

    def before_stages(self, stage, graph):
        raise ValueError("builder bug: cannot plan before-stages")


def main() -> int:
    d = tempfile.mkdtemp(prefix="plan-err-")
    url = f"sqlite:///{d}/t.db"
    store = SqliteWorkflowStore(url, create_tables=True)
    q = SqliteQueue(url)
    q._create_table()
    reg = TaskRegistry()
    reg.register("ok", Ok)
    get_default_factory().register(Broken())
    wf = Workflow.create(application="demo", name="plan-err", stages=[StageExecution(ref_id="a", type="broken", name="a", context={}, tasks=[
        TaskExecution.create("t", "ok", stage_start=True, stage_end=True)])])
    store.store(wf)
    Orchestrator(q).start(wf)
    QueueProcessor(q, store=store, task_registry=reg).process_all(timeout=10.0)
    r = store.retrieve(wf.id)
    print("workflow", r.status.name, {s.ref_id: (s.status.name, [t.status.name for t in s.tasks]) for s in r.stages}, "queue size", q.size())
    if not r.status.is_complete and q.size() == 0:
        print("WEDGE REPRODUCED: planning failed, stage RUNNING, nothing queued")
        return 1
    print("ok: workflow reached", r.status.name)
    return 0


if __name__ == "__main__":
    sys.exit(main())
