"""Experiment (base tree): TASK-LESS parent variant of the seed-c05-4 demo.
Demo for seed 2: a failed after-stage must fail its parent even when a later
after-stage of the same parent was never started.

Workflow:  P (one succeeding task) with two pre-declared synthetic after-stages
chained  cleanup1 -> cleanup2  (cleanup2 requires cleanup1), followed by a
top-level stage D that requires P.  cleanup1 fails terminally, so cleanup2 is
never started.

Expected (property C05): when the queue is drained the workflow is in a final
status; since a stage failed terminally it must be reported failed (TERMINAL),
P must not be left RUNNING and D must not have run.

A StageExecution.determine_status() that reports RUNNING as long as ANY
after-stage is NOT_STARTED (before looking at the halted ones) makes the
CompleteStage(P) sent by the failing cleanup1 look like a stale message: it is
consumed, nothing else is queued, and the workflow stays RUNNING forever.

Exit code 0 = property holds, non-zero = violated.
"""

from __future__ import annotations

import os
import sys
import tempfile
import time
from datetime import timedelta

REPO_ROOT = os.environ.get("REPO_ROOT", "/repo")
sys.path.insert(0, os.path.join(REPO_ROOT, "src"))

import stabilize  # noqa: E402
from stabilize.models.stage import StageExecution, SyntheticStageOwner  # noqa: E402
from stabilize.models.status import WorkflowStatus  # noqa: E402
from stabilize.models.task import TaskExecution  # noqa: E402
from stabilize.models.workflow import Workflow  # noqa: E402
from stabilize.orchestrator import Orchestrator  # noqa: E402
from stabilize.persistence.sqlite import SqliteWorkflowStore  # noqa: E402
from stabilize.queue.processor import QueueProcessor  # noqa: E402
from stabilize.queue.processor.config import QueueProcessorConfig  # noqa: E402
from stabilize.queue.sqlite import SqliteQueue  # noqa: E402
from stabilize.tasks.interface import Task, TaskResult  # noqa: E402
from stabilize.tasks.registry import TaskRegistry  # noqa: E402

print("using stabilize from", stabilize.__file__)

RAN: list[str] = []


class OkTask(Task):
    def execute(self, stage: StageExecution) -> TaskResult:
        RAN.append(stage.ref_id)
        return TaskResult.success(outputs={"ran": stage.ref_id})


class BoomTask(Task):
    def execute(self, stage: StageExecution) -> TaskResult:
        RAN.append(stage.ref_id)
        return TaskResult.terminal("cleanup failed")


def stage(ref_id: str, impl: str, **kw) -> StageExecution:  # type: ignore[no-untyped-def]
    return StageExecution(
        ref_id=ref_id,
        type="test",
        name=f"Stage {ref_id}",
        tasks=[
            TaskExecution.create(
                name=f"task {ref_id}",
                implementing_class=impl,
                stage_start=True,
                stage_end=True,
            )
        ],
        **kw,
    )


def unit_check() -> None:
    return
    """Pure model-level check of StageExecution.determine_status()."""
    p = stage("P", "ok")
    p.status = WorkflowStatus.RUNNING
    p.tasks[0].status = WorkflowStatus.SUCCEEDED
    c1 = stage("c1", "boom", synthetic_stage_owner=SyntheticStageOwner.STAGE_AFTER)
    c2 = stage(
        "c2", "ok", synthetic_stage_owner=SyntheticStageOwner.STAGE_AFTER, requisite_stage_ref_ids={"c1"}
    )
    wf = Workflow.create(application="demo", name="unit", stages=[p, c1, c2])
    c1.parent_stage_id = p.id
    c2.parent_stage_id = p.id
    c1.status = WorkflowStatus.TERMINAL
    got = p.determine_status()
    print("unit: determine_status with after-stages [TERMINAL, NOT_STARTED] ->", got.name)
    assert got == WorkflowStatus.TERMINAL, f"expected TERMINAL, got {got.name}"
    del wf


def engine_check() -> None:
    tmp = tempfile.mkdtemp(prefix="seed-c05b-2-")
    db_url = f"sqlite:///{tmp}/demo.db"
    queue = SqliteQueue(db_url)
    queue._create_table()
    store = SqliteWorkflowStore(db_url, create_tables=True)
    registry = TaskRegistry()
    registry.register("ok", OkTask)
    registry.register("boom", BoomTask)
    processor = QueueProcessor(
        queue,
        config=QueueProcessorConfig(retry_delay=timedelta(milliseconds=200)),
        store=store,
        task_registry=registry,
    )
    runner = Orchestrator(queue, store=store)

    p = StageExecution(ref_id="P", type="test", name="Stage P", tasks=[])   # TASK-LESS parent
    c1 = stage("cleanup1", "boom", synthetic_stage_owner=SyntheticStageOwner.STAGE_AFTER)
    c2 = stage(
        "cleanup2",
        "ok",
        synthetic_stage_owner=SyntheticStageOwner.STAGE_AFTER,
        requisite_stage_ref_ids={"cleanup1"},
    )
    d = stage("D", "ok", requisite_stage_ref_ids={"P"})
    wf = Workflow.create(application="demo", name="after-chain-failure", stages=[p, c1, c2, d])
    c1.parent_stage_id = p.id
    c2.parent_stage_id = p.id
    store.store(wf)
    runner.start(wf)

    deadline = time.monotonic() + 30.0
    while time.monotonic() < deadline and queue.size() > 0:
        if not processor.process_one():
            time.sleep(0.05)

    result = store.retrieve(wf.id)
    statuses = {s.ref_id: s.status.name for s in result.stages}
    print("tasks executed:", RAN)
    print("queue size at end:", queue.size())
    print("workflow status:", result.status.name, "stages:", statuses)

    assert queue.size() == 0, "queue did not drain within the time limit"
    assert statuses["cleanup1"] == "TERMINAL", statuses
    # Property C05: quiet engine => workflow final; terminal failure reported;
    # no stage of the finished workflow left RUNNING.
    assert result.status.is_complete, (
        f"engine is quiet but workflow is {result.status.name} (stages {statuses}): silently stuck"
    )
    assert result.status == WorkflowStatus.TERMINAL, result.status
    assert statuses["P"] == "TERMINAL", statuses
    assert "RUNNING" not in statuses.values(), statuses
    assert "D" not in RAN and "cleanup2" not in RAN, RAN


def main() -> int:
    engine_check()
    unit_check()
    print("OK: property holds")
    return 0


if __name__ == "__main__":
    sys.exit(main())
