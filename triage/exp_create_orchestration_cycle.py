"""Workflow.create_orchestration accepts a cyclic / ill-referenced stage graph (C20): a{b}, b{a}; duplicate ref ids; unknown refs.
Workflow.create rejects all three with InvalidStageGraphError. exit 1 = an invalid graph was accepted, exit 0 = all rejected."""
import os
import sys

REPO_ROOT = os.environ.get("REPO_ROOT", "/repo")
sys.path.insert(0, os.path.join(REPO_ROOT, "src"))

from stabilize.models.stage import StageExecution  # noqa: E402
from stabilize.models.workflow import Workflow  # noqa: E402


def st(ref, req=()):
    return StageExecution(ref_id=ref, type="t", name=ref, requisite_stage_ref_ids=set(req))


def main() -> int:
    bad = []
    for label, stages in (("cycle a{b}, b{a}", lambda: [st("a", ["b"]), st("b", ["a"])]), ("duplicate ref", lambda: [st("a"), st("a")]), ("unknown ref", lambda: [st("a", ["zzz"])])):
        try:
            Workflow.create_orchestration(application="x", name="n", stages=stages())
            print("ACCEPTED:", label)
            bad.append(label)
        except Exception as e:          # noqa: BLE001
            print("rejected:", label, "->", type(e).__name__)
    return 1 if bad else 0


if __name__ == "__main__":
    sys.exit(main())
