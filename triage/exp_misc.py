import os, sys, tempfile, time
sys.path.insert(0, "/repo/src"); sys.path.insert(0, "/repo/src")
from datetime import timedelta
from stabilize import *
from stabilize.models.workflow import Workflow
from stabilize.models.task import TaskExecution
from stabilize.models.status import WorkflowStatus
from stabilize.queue.messages import CancelStage, StartStage
from stabilize.handlers import CancelStageHandler

def mk():
    d=tempfile.mkdtemp(); cs=f"sqlite:///{d}/t.db"
    store=SqliteWorkflowStore(cs, create_tables=True); q=SqliteQueue(cs); q._create_table()
    return store,q

# (1) suspend vs cancel
store,q=mk()
class Susp(Task):
    def execute(self, stage):
        # simulate a concurrent worker handling CancelStage while we run
        CancelStageHandler(q, store).handle(CancelStage(execution_type="PIPELINE", execution_id=stage.execution.id, stage_id=stage.id))
        return TaskResult.suspend()
reg=TaskRegistry(); reg.register("s", Susp)
p=QueueProcessor(q, store=store, task_registry=reg)
wf=Workflow.create(application="a", name="n", stages=[StageExecution(ref_id="s", type="test", name="s", tasks=[TaskExecution.create(name="t", implementing_class="s", stage_start=True, stage_end=True)])])
store.store(wf); Orchestrator(q).start(wf)
p.process_all(timeout=5)
r=store.retrieve(wf.id)
print("(1) stage", r.stages[0].status, "task", r.stages[0].tasks[0].status, "wf", r.status)

# (4) STOPPED -> SUCCEEDED
store,q=mk()
class Fail(Task):
    def execute(self, stage): return TaskResult.terminal(error="boom")
reg=TaskRegistry(); reg.register("f", Fail)
p=QueueProcessor(q, store=store, task_registry=reg)
wf=Workflow.create(application="a", name="n", stages=[StageExecution(ref_id="s", type="test", name="s", context={"failPipeline": False}, tasks=[TaskExecution.create(name="t", implementing_class="f", stage_start=True, stage_end=True)])])
store.store(wf); Orchestrator(q).start(wf)
p.process_all(timeout=5)
r=store.retrieve(wf.id)
print("(4) stage", r.stages[0].status, "wf", r.status)

# (3) max_attempts mismatch
d=tempfile.mkdtemp(); cs=f"sqlite:///{d}/t.db"
store=SqliteWorkflowStore(cs, create_tables=True); q=SqliteQueue(cs, max_attempts=2, lock_duration=timedelta(seconds=0.05)); q._create_table()
with store.transaction(q) as txn:
    txn.push_message(StartStage(execution_type="PIPELINE", execution_id="x", stage_id="nope"))
for i in range(4):
    m=q.poll_one(); print("(3) poll", i, bool(m)); time.sleep(0.1)
print("(3) moved", q.check_and_move_expired(), "size", q.size(), "dlq", q.dlq_size())
