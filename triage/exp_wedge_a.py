"""Wedge A: a STAGE_BEFORE child that ends FAILED_CONTINUE strands its parent.

Workflow shape (built exactly like tests/test_synthetic_stage_edge_cases.py does):

    parent_stage  (top-level, one task "main" that succeeds)
      `- before_stage (synthetic_stage_owner=STAGE_BEFORE, parent_stage_id=parent.id,
                       one task that returns TaskResult.failed_continue(...))

Expected: the before-stage's failure is non-fatal (FAILED_CONTINUE is a CONTINUABLE status),
so the parent's own task must run and the workflow must reach a final status - or, if the
engine decides that a failed before-stage blocks the parent, the parent must be finalized.
Either way the workflow must not stay RUNNING with an empty queue.

Observed on HEAD: CompleteStage(before) -> "FAILED_CONTINUE propagation to parent" pushes
CompleteStage(parent) instead of ContinueParentStage(parent, STAGE_BEFORE). The parent is RUNNING
with its task NOT_STARTED, determine_status() says RUNNING, the message is dropped as "stale".
Nothing ever starts the parent's task.

Delivery order: plain FIFO (single linear chain of messages - there is no other order).

VARIANT=context uses the other public route to FAILED_CONTINUE: the task returns
TaskResult.terminal(...) and the before-stage has context {"continuePipelineOnFailure": True}.

exit 1 = wedge reproduced (workflow non-final, queue empty); exit 0 = not reproduced.
"""

import os
import sys
import tempfile

REPO_ROOT = os.environ.get("REPO_ROOT", "/repo")
sys.path.insert(0, os.path.join(REPO_ROOT, "src"))

from stabilize import (  # noqa: E402
    Orchestrator,
    QueueProcessor,
    SqliteQueue,
    SqliteWorkflowStore,
    StageExecution,
    Task,
    TaskRegistry,
    TaskResult,
)
from stabilize.models.stage import SyntheticStageOwner  # noqa: E402
from stabilize.models.task import TaskExecution  # noqa: E402
from stabilize.models.workflow import Workflow  # noqa: E402

import stabilize  # noqa: E402

VARIANT = os.environ.get("VARIANT", "result")  # "result" | "context"
ran: list[str] = []


class Ok(Task):
    def execute(self, stage: StageExecution) -> TaskResult:
        ran.append(stage.ref_id)
        return TaskResult.success()


class SoftFail(Task):
    def execute(self, stage: StageExecution) -> TaskResult:
        ran.append(stage.ref_id)
        if VARIANT == "context":
            return TaskResult.terminal("setup failed (stage has continuePipelineOnFailure)")
        return TaskResult.failed_continue("setup failed, non-fatal")


def one(name: str, impl: str) -> list[TaskExecution]:
    return [TaskExecution.create(name=name, implementing_class=impl, stage_start=True, stage_end=True)]


def main() -> int:
    print(f"stabilize imported from: {os.path.dirname(stabilize.__file__)}  (variant={VARIANT})")
    d = tempfile.mkdtemp(prefix="wedge-a-")
    cs = f"sqlite:///{d}/t.db"
    store = SqliteWorkflowStore(cs, create_tables=True)
    queue = SqliteQueue(cs)
    queue._create_table()
    reg = TaskRegistry()
    reg.register("ok", Ok)
    reg.register("softfail", SoftFail)

    parent = StageExecution(ref_id="parent_stage", type="test", name="Parent", tasks=one("main", "ok"))
    before = StageExecution(
        ref_id="before_stage",
        type="test",
        name="Before",
        synthetic_stage_owner=SyntheticStageOwner.STAGE_BEFORE,
        context={"continuePipelineOnFailure": True} if VARIANT == "context" else {},
        tasks=one("setup", "softfail"),
    )
    wf = Workflow.create(application="demo", name="wedge-a", stages=[parent, before])
    before.parent_stage_id = parent.id

    store.store(wf)
    Orchestrator(queue).start(wf)
    processor = QueueProcessor(queue, store=store, task_registry=reg)
    processor.process_all(timeout=10.0)

    r = store.retrieve(wf.id)
    qsize = queue.size()
    print(f"workflow: {r.status.name}")
    for s in r.stages:
        owner = s.synthetic_stage_owner.name if s.synthetic_stage_owner else "-"
        print(f"  stage {s.ref_id:13s} owner={owner:12s} {s.status.name:16s} tasks={[t.status.name for t in s.tasks]}")
    print(f"tasks executed: {ran}")
    print(f"queue size: {qsize}")

    stuck = (not r.status.is_complete) and qsize == 0
    if stuck:
        print("WEDGE A REPRODUCED: queue drained, no handler running, workflow is non-final and not waiting on anything")
        return 1
    if r.status.is_complete:
        print("no wedge: workflow reached a final status")
    else:
        print("queue not drained yet (delayed/polling messages remain) - not the drained-queue wedge")
    return 0


if __name__ == "__main__":
    sys.exit(main())
