import sys
sys.path.insert(0,"/repo/src")
from stabilize.expressions import evaluate_expression, ExpressionError
cases = [
 ('-name', {"name":"bob"}),
 ('d[[1]]', {"d":{"a":1}}),
 ('d[x]', {"d":{"a":1}, "x":[1]}),
 ('not '*3000+'a', {}),
 ('a'+'.b'*5000, {}),
 ('\x00', {}),
 ('('*300+'1'+')'*300, {}),
 ('[1] in d', {"d":{"a":1}}),
 ('1 in 2', {}),
 ('-[1]', {}),
 ('-None', {}),
 ('x if y else z', {}),
 ('a < b < c', {"a":1,"b":"x","c":2}),
 ('1 if (-x) else 2', {"x": {}}),
]
for e,c in cases:
    try:
        r = evaluate_expression(e,c)
        print(repr(e[:30]), '->', repr(r)[:40])
    except ExpressionError as ex:
        print(repr(e[:30]), 'ExpressionError', str(ex)[:60])
    except BaseException as ex:
        print(repr(e[:30]), 'ESCAPE', type(ex).__name__, str(ex)[:60])

# added later: membership on a bytes constant raises ValueError (fixed)
for e, c in [("300 in b'abc'", {}), ("x not in b'abc'", {"x": 999})]:
    try:
        r = evaluate_expression(e, c)
        print(repr(e), '->', repr(r))
    except ExpressionError as ex:
        print(repr(e), 'ExpressionError', str(ex)[:60])
    except BaseException as ex:
        print(repr(e), 'ESCAPE', type(ex).__name__, str(ex)[:60])
