"""F10 (C13.R5): CompleteStage's error branch stored TERMINAL without an event; SKIPPED tasks got no completion event.
Prints the replayed vs stored status for (a) a stage whose completion raised, (b) a task skipped through the manualSkip context flag."""
import os, sys, tempfile
sys.path.insert(0, os.environ.get("REPO_SRC", "/repo/src"))
from stabilize import *
from stabilize.models.workflow import Workflow
from stabilize.models.task import TaskExecution
from stabilize.tasks.interface import SkippableTask
from stabilize.events import configure_event_sourcing, SqliteEventStore
from stabilize.events.replay import EventReplayer
from stabilize.handlers import CompleteStageHandler
d = tempfile.mkdtemp(); cs = f"sqlite:///{d}/t.db"
store = SqliteWorkflowStore(cs, create_tables=True); q = SqliteQueue(cs); q._create_table()
es = SqliteEventStore(cs, create_tables=True); configure_event_sourcing(es)
orch = Orchestrator(q, store)
class Ok(Task):
    def execute(self, stage): return TaskResult.success(outputs={"x": 1})
class Off(SkippableTask):
    def is_enabled(self, stage): return False
    def do_execute(self, stage): return TaskResult.success()
    def execute(self, stage): return TaskResult.success()
reg = TaskRegistry(); reg.register("ok", Ok); reg.register("off", Off)
p = QueueProcessor(q, store=store, task_registry=reg)
wf = Workflow.create(application="a", name="n", stages=[
    StageExecution(ref_id="a", type="test", name="a", context={"manualSkip": True}, tasks=[TaskExecution.create(name="skipme", implementing_class="ok", stage_start=True, stage_end=True)]),
    StageExecution(ref_id="b", type="test", name="b", requisite_stage_ref_ids={"a"}, tasks=[TaskExecution.create(name="t", implementing_class="ok", stage_start=True, stage_end=True)])])
# make the completion of stage b raise a non-transient error inside CompleteStageHandler's try block
orig = CompleteStageHandler._plan_after_stages
def boom(self, stage):
    if stage.ref_id == "b":
        raise ValueError("boom")
    return orig(self, stage)
CompleteStageHandler._plan_after_stages = boom
store.store(wf); orch.start(wf)
p.process_all(timeout=8)
r = store.retrieve(wf.id)
rep = EventReplayer(es).rebuild_workflow_state(wf.id)
stored = {s.ref_id: s.status.name for s in r.stages}
replayed = {v.get("ref_id"): v.get("status") for v in rep["stages"].values()}
tstored = {t.name: t.status.name for s in r.stages for t in s.tasks}
treplayed = {v.get("name"): v.get("status") for v in rep["tasks"].values()}
print("stages stored", stored, "replayed", replayed)
print("tasks  stored", tstored, "replayed", treplayed)
ok = stored.get("b") == replayed.get("b") and tstored.get("skipme") == treplayed.get("skipme")
print("CONSISTENT" if ok else "MISMATCH")
sys.exit(0 if ok else 1)
