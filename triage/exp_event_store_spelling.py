"""An event store opened with an equivalent spelling of the same SQLite file commits the store's open transaction (C13).

The workflow store is opened with "sqlite:///<path>", the event store with the plain "<path>" (ConnectionManager accepts
both and hands out the SAME thread-local connection for them). The recorder decides whether to join the open store
transaction by comparing the two strings: they differ, so the event is appended "on its own connection" - which is the same
connection - and append_batch() COMMITS it, in the middle of the handler's transaction. An injected failure right after the
event (push_message raises) then rolls back nothing: the stage is stored SUCCEEDED and stage.completed is durable although
the transaction 'failed' - no follow-up message, no processed mark.

exit 1 = partial commit reproduced, exit 0 = the failed transaction left nothing behind.
"""
import logging
import os
import sys
import tempfile

REPO_ROOT = os.environ.get("REPO_ROOT", "/repo")
sys.path.insert(0, os.path.join(REPO_ROOT, "src"))

from stabilize.events import SqliteEventStore, configure_event_sourcing, reset_event_bus, reset_event_recorder  # noqa: E402
from stabilize.handlers import CompleteStageHandler  # noqa: E402
from stabilize.models.stage import StageExecution  # noqa: E402
from stabilize.models.status import WorkflowStatus  # noqa: E402
from stabilize.models.task import TaskExecution  # noqa: E402
from stabilize.models.workflow import Workflow  # noqa: E402
from stabilize.persistence.sqlite import SqliteWorkflowStore  # noqa: E402
from stabilize.persistence.sqlite.transaction import AtomicTransaction  # noqa: E402
from stabilize.queue import SqliteQueue  # noqa: E402
from stabilize.queue.messages import CompleteStage  # noqa: E402

logging.disable(logging.CRITICAL)


def main() -> int:
    tmp = tempfile.mkdtemp(prefix="ev-spelling-")
    path = f"{tmp}/demo.db"
    reset_event_bus()
    reset_event_recorder()
    store = SqliteWorkflowStore(f"sqlite:///{path}", create_tables=True)
    queue = SqliteQueue(f"sqlite:///{path}")
    queue._create_table()
    es = SqliteEventStore(path, create_tables=True)           # same file, other spelling
    configure_event_sourcing(es)
    wf = Workflow.create(application="demo", name="w", stages=[
        StageExecution(ref_id="a", type="demo", name="a", tasks=[TaskExecution.create(name="t", implementing_class="x", stage_start=True, stage_end=True)]),
        StageExecution(ref_id="b", type="demo", name="b", requisite_stage_ref_ids={"a"}, tasks=[TaskExecution.create(name="t", implementing_class="x", stage_start=True, stage_end=True)]),
    ])
    wf.status = WorkflowStatus.RUNNING
    a = wf.stages[0]
    a.status = WorkflowStatus.RUNNING
    a.tasks[0].status = WorkflowStatus.SUCCEEDED
    store.store(wf)
    orig = AtomicTransaction.push_message

    def failing(self, *args, **kw):
        raise RuntimeError("injected: failure after the event was recorded, inside the transaction")

    AtomicTransaction.push_message = failing
    try:
        CompleteStageHandler(queue, store).handle(CompleteStage(execution_type="PIPELINE", execution_id=wf.id, stage_id=a.id, message_id="m1"))
    except Exception as e:                               # noqa: BLE001
        print("handler failed as injected:", type(e).__name__)
    AtomicTransaction.push_message = orig
    conn = store._get_connection()
    conn.rollback()
    st = store.retrieve_stage(a.id).status.name
    ev = [r[0] for r in conn.execute("select event_type from events where entity_id = ?", (a.id,))]
    print("stage a in the store:", st, "| durable events for a:", ev, "| queue size:", queue.size())
    if st != "RUNNING" or ev:
        print("PARTIAL COMMIT REPRODUCED: the 'rolled back' transaction left the stage", st, "and events", ev)
        return 1
    print("ok: the failed transaction left nothing behind")
    return 0


if __name__ == "__main__":
    sys.exit(main())
