import os, sys, tempfile, sqlite3, json
ROOT = os.environ.get("REPO_ROOT") or os.path.dirname(os.path.dirname(os.path.dirname(os.path.abspath(__file__))))
sys.path.insert(0, os.path.join(ROOT, "src"))
from datetime import timedelta
from stabilize.models.stage import StageExecution, SyntheticStageOwner
from stabilize.models.status import WorkflowStatus
from stabilize.models.task import TaskExecution
from stabilize.models.workflow import Workflow
from stabilize.orchestrator import Orchestrator
from stabilize.persistence.sqlite import SqliteWorkflowStore
from stabilize.queue.processor import QueueProcessor
from stabilize.queue.sqlite import SqliteQueue
from stabilize.queue.sqlite.serialization import deserialize_message
from stabilize.tasks.interface import Task, TaskResult
from stabilize.tasks.registry import TaskRegistry
from stabilize.resilience.config import HandlerConfig

class Ok(Task):
    def execute(self, stage): return TaskResult.success(outputs={"ok": True})
class Fail(Task):
    def execute(self, stage): return TaskResult.terminal("boom")

def env(extra=None, handler_config=None):
    d = tempfile.mkdtemp()
    url = f"sqlite:///{d}/t.db"
    q = SqliteQueue(url); q._create_table()
    s = SqliteWorkflowStore(url, create_tables=True)
    r = TaskRegistry(); r.register("ok", Ok); r.register("fail", Fail)
    for k, v in (extra or {}).items(): r.register(k, v)
    p = QueueProcessor(q, store=s, task_registry=r, handler_config=handler_config)
    o = Orchestrator(q, store=s)
    return q, s, p, o, f"{d}/t.db"

def stage(ref, cls="ok", req=(), ctx=None, **kw):
    return StageExecution(ref_id=ref, type="test", name=ref, context=ctx or {},
        requisite_stage_ref_ids=set(req),
        tasks=[TaskExecution.create(name=f"{ref}-t", implementing_class=cls, stage_start=True, stage_end=True)], **kw)

def rows(q):
    c = q._get_connection()
    return [dict(r) for r in c.execute(f"select id, message_type, payload, deliver_at from {q.table_name} order by id")]

def show(q):
    for r in rows(q):
        p = json.loads(r["payload"])
        print("   Q", r["id"], r["message_type"], {k: p[k] for k in ("stage_id","task_id","status","phase","retry_count") if k in p})

def deliver(q, p, pred):
    """Deliver the first queued message for which pred(type, payload) is true."""
    for r in rows(q):
        pl = json.loads(r["payload"])
        if pred(r["message_type"], pl):
            m = deserialize_message(r["message_type"], r["payload"])
            m.message_id = str(r["id"])
            p._handle_message(m)
            q.ack(m)
            return r["message_type"]
    raise AssertionError("no such message queued")

def drain(q, p, timeout=20.0, make_due=True):
    import time
    t = time.monotonic()
    n = 0
    while time.monotonic() - t < timeout:
        if q.size() == 0: break
        if make_due:
            c = q._get_connection()
            c.execute(f"update {q.table_name} set deliver_at = datetime('now','utc','-1 second')"); c.commit()
        if p.process_one(): n += 1
        else: time.sleep(0.01)
    return n

def dump(s, wid):
    w = s.retrieve(wid)
    print("WF", w.status.name, "canceled" if w.is_canceled else "")
    for st in w.stages:
        print("   ", st.ref_id[:12], st.status.name, st.synthetic_stage_owner.name if st.synthetic_stage_owner else "", [t.status.name for t in st.tasks])
    return w
