"""Behaviour of the UNCHANGED code that violates C05 (each scenario prints the quiescent state).

Run:  PYTHONPATH=<WT>/src /venv/bin/python _seed/unchanged/repro.py      (REPO_ROOT defaults to the worktree)
Every scenario ends with an empty queue (delayed messages are made due at once by drain()).
"""
from h import *  # noqa: F401,F403
import logging

logging.disable(logging.CRITICAL)
from stabilize.models.stage import JoinType
from stabilize.queue.messages import CancelRegion
from stabilize.stages.builder import StageDefinitionBuilder, register_builder


def title(t):
    print("\n==", t)


# 1 ------------------------------------------------------------------------------------------
title("1. before-stage ends FAILED_CONTINUE (continuePipelineOnFailure on the before-stage) -> parent RUNNING forever")
q, s, p, o, _ = env()
P = stage("P")
b = stage("B", cls="fail", ctx={"continuePipelineOnFailure": True})
b.synthetic_stage_owner = SyntheticStageOwner.STAGE_BEFORE
w = Workflow.create(application="a", name="n", stages=[P, b])
b.parent_stage_id = P.id
s.store(w); o.start(w); drain(q, p, timeout=5)
print("queue", q.size()); dump(s, w.id)

# 2 ------------------------------------------------------------------------------------------
title("2. task returns REDIRECT without target_stage_ref_id -> task REDIRECT, stage/workflow RUNNING forever")
class Redir(Task):
    def execute(self, stage):
        return TaskResult(status=WorkflowStatus.REDIRECT)
q, s, p, o, _ = env({"redir": Redir})
w = Workflow.create(application="a", name="n", stages=[stage("A", cls="redir")])
s.store(w); o.start(w); drain(q, p, timeout=5)
print("queue", q.size()); dump(s, w.id)

# 3 ------------------------------------------------------------------------------------------
title("3. pause lands after the last RunTask -> CompleteWorkflow raises PAUSED->SUCCEEDED 10x (poison), workflow PAUSED with all stages SUCCEEDED; unpause() is a no-op")
q, s, p, o, _ = env()
w = Workflow.create(application="a", name="n", stages=[stage("A")])
s.store(w); o.start(w)
for _ in range(4):
    p.process_one()
s.pause(w.id, paused_by="x")
errs = 0
for _ in range(40):
    if q.size() == 0:
        break
    c = q._get_connection(); c.execute(f"update {q.table_name} set deliver_at = datetime('now','utc','-1 second')"); c.commit()
    try:
        if not p.process_one():
            break
    except Exception as e:
        errs += 1; last = f"{type(e).__name__}: {e}"
print("handler errors:", errs, last if errs else ""); print("queue rows left (attempts exhausted):", q.size())
o.unpause(w); drain(q, p, timeout=2); dump(s, w.id)

# 4 ------------------------------------------------------------------------------------------
title("4. failing branch next to a SUSPENDED one -> workflow TERMINAL, sibling stage left SUSPENDED")
class Susp(Task):
    def execute(self, stage):
        return TaskResult.success() if stage.context.get("_signal_name") else TaskResult(status=WorkflowStatus.SUSPENDED)
q, s, p, o, _ = env({"susp": Susp})
w = Workflow.create(application="a", name="n", stages=[stage("A", cls="susp"), stage("B", cls="fail")])
s.store(w); o.start(w); drain(q, p, timeout=5)
print("queue", q.size()); dump(s, w.id)

# 5 ------------------------------------------------------------------------------------------
title("5. stage planning raises (builder.before_stages) -> CompleteStage treats itself as stale, stage RUNNING forever")
class BoomStageBuilder(StageDefinitionBuilder):
    @property
    def type(self):
        return "boom"
    def before_stages(self, stage, graph):
        raise ValueError("cannot plan")
register_builder(BoomStageBuilder())
q, s, p, o, _ = env()
a = stage("A"); a.type = "boom"
w = Workflow.create(application="a", name="n", stages=[a, stage("B", req=["A"])])
s.store(w); o.start(w); drain(q, p, timeout=5)
print("queue", q.size()); dump(s, w.id)

# 6 ------------------------------------------------------------------------------------------
title("6. external CancelRegion cancels a NOT_STARTED downstream stage -> upstream completes, StartStage ignored, nobody pushes CompleteWorkflow")
q, s, p, o, _ = env()
u = stage("U"); r = stage("R", req=["U"]); r.cancel_region = "reg"
w = Workflow.create(application="a", name="n", stages=[u, r])
s.store(w); o.start(w)
for _ in range(3):
    p.process_one()
q.push(CancelRegion(execution_type=w.type.value, execution_id=w.id, region="reg"))
deliver(q, p, lambda t, pl: t == "CancelRegion"); deliver(q, p, lambda t, pl: t == "CancelStage")
drain(q, p, timeout=5)
print("queue", q.size()); dump(s, w.id)

# 7 ------------------------------------------------------------------------------------------
title("7. store.resume() (what the monitor UI calls) after the park -> stage PAUSED forever in a RUNNING workflow")
q, s, p, o, _ = env()
w = Workflow.create(application="a", name="n", stages=[stage("A")])
s.store(w); o.start(w)
for _ in range(3):
    p.process_one()
s.pause(w.id, paused_by="x")
p.process_one(); p.process_one()
s.resume(w.id); drain(q, p, timeout=3)
print("queue", q.size()); dump(s, w.id)

# 8 ------------------------------------------------------------------------------------------
title("8. purged BUFFERED workflow (keep_waiting_pipelines=False) -> later promoted, StartWorkflow._terminate() is a no-op: NOT_STARTED + canceled forever")
q, s, p, o, _ = env()
def mk(name):
    x = Workflow.create(application="a", name=name, stages=[stage("A")], pipeline_config_id="cfg")
    x.is_limit_concurrent = True; x.max_concurrent_executions = 1; x.keep_waiting_pipelines = False
    return x
w1, w2, w3 = mk("w1"), mk("w2"), mk("w3")
for x in (w1, w2, w3):
    s.store(x)
o.start(w1); p.process_one()
o.start(w2); o.start(w3)
deliver(q, p, lambda t, pl: t == "StartWorkflow" and pl["execution_id"] == w2.id)
deliver(q, p, lambda t, pl: t == "StartWorkflow" and pl["execution_id"] == w3.id)
drain(q, p, timeout=10); print("queue", q.size())
for x in (w1, w2, w3):
    rr = s.retrieve(x.id); print("   ", x.name, rr.status.name, "canceled" if rr.is_canceled else "", [st.status.name for st in rr.stages])

# 9 ------------------------------------------------------------------------------------------
title("9. RestartStage of a stage that failed through its before-stage -> children are not reset, parent RUNNING forever")
class Flaky(Task):
    n = 0
    def execute(self, stage):
        Flaky.n += 1
        return TaskResult.terminal("x") if Flaky.n == 1 else TaskResult.success()
q, s, p, o, _ = env({"flaky": Flaky})
P = stage("P"); b = stage("B", "flaky"); b.synthetic_stage_owner = SyntheticStageOwner.STAGE_BEFORE
w = Workflow.create(application="a", name="n", stages=[P, b]); b.parent_stage_id = P.id
s.store(w); o.start(w); drain(q, p, timeout=5)
o.restart(s.retrieve(w.id), P.id); drain(q, p, timeout=5)
print("queue", q.size()); dump(s, w.id)

# 10 -----------------------------------------------------------------------------------------
title("10. DISCRIMINATOR join: 2nd upstream completes between the join's claim commit and its planning commit (hook = second worker) -> ConcurrencyError swallowed, join RUNNING with NOT_STARTED task forever")
from stabilize.handlers.start_stage.handler import StartStageHandler
q, s, p, o, _ = env()
u1, u2 = stage("U1"), stage("U2")
j = stage("J", req=["U1", "U2"]); j.join_type = JoinType.DISCRIMINATOR
w = Workflow.create(application="a", name="n", stages=[u1, u2, j])
s.store(w); o.start(w)
for _ in range(100):
    ts = [(r["message_type"], json.loads(r["payload"]).get("stage_id")) for r in rows(q)]
    if ("StartStage", j.id) in ts and ("CompleteStage", u2.id) in ts:
        break
    p.process_one()
orig = StartStageHandler._plan_stage
def hooked(self, st):
    if st.id == j.id and not getattr(hooked, "done", False):
        hooked.done = True
        deliver(q, p, lambda t, pl: t == "CompleteStage" and pl["stage_id"] == u2.id)
    return orig(self, st)
StartStageHandler._plan_stage = hooked
deliver(q, p, lambda t, pl: t == "StartStage" and pl["stage_id"] == j.id)
StartStageHandler._plan_stage = orig
drain(q, p, timeout=5)
print("queue", q.size()); dump(s, w.id)
