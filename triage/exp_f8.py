"""F8 (C01): AddMultiInstanceHandler committed the processed-mark before inserting the new instance / pushing StartStage.
Simulated crash = exception raised by queue.push (unrepaired) / nothing to interrupt (repaired: one commit).
Prints the durable state after a 'crash' right after the first commit of the handler."""
import sys, os, tempfile, sqlite3
sys.path.insert(0, os.environ.get("REPO_SRC", "/repo/src"))
from stabilize.persistence.sqlite.store import SqliteWorkflowStore
from stabilize.queue.sqlite.queue import SqliteQueue
from stabilize.models.workflow import Workflow
from stabilize.models.stage import StageExecution
from stabilize.models.multi_instance import MultiInstanceConfig
from stabilize.models.status import WorkflowStatus
from stabilize.handlers import AddMultiInstanceHandler
from stabilize.queue.messages import AddMultiInstance

d = tempfile.mkdtemp(); url = f"sqlite:///{d}/t.db"
store = SqliteWorkflowStore(url, create_tables=True); q = SqliteQueue(url); q._create_table()
st = StageExecution.create(type="t", name="mi", ref_id="mi", context={})
st.mi_config = MultiInstanceConfig(allow_dynamic=True)
st.status = WorkflowStatus.RUNNING
wf = Workflow.create(application="a", name="w", stages=[st]); wf.status = WorkflowStatus.RUNNING
store.store(wf)
h = AddMultiInstanceHandler(q, store)
conn = store._get_connection()
class Crash(BaseException): pass
commits = {"n": 0}
# crash right after the FIRST commit the handler makes
import stabilize.persistence.sqlite.store.store as S
orig_commit = sqlite3.Connection.commit
msg = AddMultiInstance(execution_type=wf.type.value, execution_id=wf.id, stage_id=st.id, instance_context={"x": 1}); msg.message_id = "42"
real_add = store.add_stage
def boom(*a, **k): raise Crash()
store.add_stage = boom          # unrepaired code path: crash between commit 1 and the instance insert
q_push = q.push
q.push = boom
try:
    h.handle(msg)
except Crash:
    pass
n_stages = conn.execute("select count(*) from stage_executions").fetchone()[0]
n_msgs = conn.execute("select count(*) from queue_messages").fetchone()[0]
marked = conn.execute("select count(*) from processed_messages where message_id='42'").fetchone()[0]
print(f"after crash: stages={n_stages} queued={n_msgs} marked={marked}")
print("LOST INSTANCE (marked, nothing inserted/queued)" if marked and n_stages == 1 else "consistent (all or nothing)")
