"""A workflow is reported SUCCEEDED while one of its stages is SUSPENDED (waiting for an approval).

Workflow: two independent top-level stages
    A     one task that fails; context {"failPipeline": False}  -> the stage ends STOPPED, the workflow goes on
    gate  stabilize.hitl.ApprovalTask                              -> suspends until approve()/reject()

Expected: the workflow stays RUNNING until the gate is decided; approve() then resumes the gate, its task runs a second
time, sees the approval and the stage ends SUCCEEDED.

Observed on the defective tree: CompleteWorkflow (pushed when A ends) finds statuses [STOPPED, SUSPENDED];
`_other_branches_incomplete` only counts RUNNING / ready NOT_STARTED stages as unfinished, so the workflow is stored
SUCCEEDED while the gate is still SUSPENDED. The later approve() resumes a stage of a finished workflow: the task is never
re-run with the approval and the gate ends CANCELED - the approver's decision has no effect.

Delivery order: plain FIFO.   exit 1 = defect reproduced, exit 0 = not reproduced.
"""
import os
import sys
import tempfile

REPO_ROOT = os.environ.get("REPO_ROOT", "/repo")
sys.path.insert(0, os.path.join(REPO_ROOT, "src"))

from stabilize import (  # noqa: E402
    Orchestrator, QueueProcessor, SqliteQueue, SqliteWorkflowStore, StageExecution, Task, TaskExecution, TaskRegistry,
    TaskResult, Workflow,
)
from stabilize.hitl import ApprovalTask, approve  # noqa: E402

runs = []


class Boom(Task):
    def execute(self, stage):
        return TaskResult.terminal("A failed")


class Gate(ApprovalTask):
    def execute(self, stage):
        runs.append(stage.context.get("_signal_name"))
        return super().execute(stage)


def main() -> int:
    d = tempfile.mkdtemp(prefix="succ-susp-")
    cs = f"sqlite:///{d}/t.db"
    store = SqliteWorkflowStore(cs, create_tables=True)
    queue = SqliteQueue(cs)
    queue._create_table()
    reg = TaskRegistry()
    reg.register("boom", Boom)
    reg.register("gate", Gate)
    wf = Workflow.create(application="demo", name="succ-susp", stages=[
        StageExecution(ref_id="A", name="A", context={"failPipeline": False},
                       tasks=[TaskExecution.create("t", "boom", stage_start=True, stage_end=True)]),
        StageExecution(ref_id="gate", name="gate", context={},
                       tasks=[TaskExecution.create("wait", "gate", stage_start=True, stage_end=True)]),
    ])
    store.store(wf)
    Orchestrator(queue).start(wf)
    p = QueueProcessor(queue, store=store, task_registry=reg)
    p.process_all(timeout=10.0)
    r = store.retrieve(wf.id)
    st = {s.ref_id: s.status.name for s in r.stages}
    print("after drain: workflow", r.status.name, st, "gate task runs:", runs)
    early = r.status.is_complete and st["gate"] == "SUSPENDED"
    gate_id = [s.id for s in r.stages if s.ref_id == "gate"][0]
    approve(queue, wf.id, gate_id, {"by": "alice"})
    p.process_all(timeout=10.0)
    r = store.retrieve(wf.id)
    st2 = {s.ref_id: s.status.name for s in r.stages}
    print("after approve: workflow", r.status.name, st2, "gate task runs:", runs)
    if early or st2["gate"] != "SUCCEEDED" or "approve" not in runs:
        print("DEFECT REPRODUCED: workflow finalised while the gate was SUSPENDED; the approval had no effect")
        return 1
    print("ok: the workflow waited for the gate and the approval resumed it")
    return 0


if __name__ == "__main__":
    sys.exit(main())
