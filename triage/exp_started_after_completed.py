"""task.started is recorded AFTER the commit that pushes RunTask: with two workers it can land behind task.completed (C12).

Interleaving (statement level, crash-free): worker 1 handles StartTask and commits {task RUNNING, RunTask pushed}; before it
records task.started, worker 2 polls RunTask, runs the task, handles CompleteTask (task.completed recorded inside its
transaction). Worker 1 then records task.started. The log ends ... task.completed, task.started: the replay says the task is
RUNNING, the store says SUCCEEDED. Modelled deterministically: right after the commit of the StartTask transaction (RunTask visible in the queue)
'worker 2' drains the queue; worker 1 then continues with whatever it still has to do.

exit 1 = divergence reproduced, exit 0 = store and replay agree.
"""
import logging
import os
import sys
import tempfile

REPO_ROOT = os.environ.get("REPO_ROOT", "/repo")
sys.path.insert(0, os.path.join(REPO_ROOT, "src"))

from stabilize import Orchestrator  # noqa: E402
from stabilize.events import SqliteEventStore, configure_event_sourcing, reset_event_bus, reset_event_recorder  # noqa: E402
from stabilize.events.replay import EventReplayer  # noqa: E402
from stabilize.models.stage import StageExecution  # noqa: E402
from stabilize.models.status import WorkflowStatus  # noqa: E402
from stabilize.models.task import TaskExecution  # noqa: E402
from stabilize.models.workflow import Workflow  # noqa: E402
from stabilize.persistence.sqlite import SqliteWorkflowStore  # noqa: E402
from stabilize.queue import SqliteQueue  # noqa: E402
from stabilize.queue.processor import QueueProcessor  # noqa: E402
from stabilize.tasks.interface import Task  # noqa: E402
from stabilize.tasks.registry import TaskRegistry  # noqa: E402
from stabilize.tasks.result import TaskResult  # noqa: E402

logging.disable(logging.CRITICAL)


class Ok(Task):
    def execute(self, stage):
        return TaskResult.success()


def main() -> int:
    tmp = tempfile.mkdtemp(prefix="started-after-")
    reset_event_bus()
    reset_event_recorder()
    url = f"sqlite:///{tmp}/demo.db"
    store = SqliteWorkflowStore(url, create_tables=True)
    queue = SqliteQueue(url)
    queue._create_table()
    es = SqliteEventStore(url, create_tables=True)
    rec = configure_event_sourcing(es)
    reg = TaskRegistry()
    reg.register("ok", Ok)
    wf = Workflow.create(application="demo", name="w", stages=[StageExecution(ref_id="a", type="demo", name="a", tasks=[
        TaskExecution.create(name="t", implementing_class="ok", stage_start=True, stage_end=True)])])
    store.store(wf)
    Orchestrator(queue).start(wf)
    w1 = QueueProcessor(queue, store=store, task_registry=reg)
    w2 = QueueProcessor(queue, store=store, task_registry=reg)
    # 'worker 2' gets the CPU right after worker 1's StartTask transaction has committed (RunTask is then visible in the queue)
    import stabilize.events.txn_scope as scope_mod
    from stabilize.queue.messages import RunTask
    orig_commit = scope_mod.commit_store_transaction
    fired = [False]

    def commit_then_yield(*a, **kw):
        r = orig_commit(*a, **kw)
        if not fired[0]:
            rows = queue._get_connection().execute(f"SELECT message_type FROM {queue.table_name}").fetchall()
            if any("RunTask" in str(x[0]) for x in rows):
                fired[0] = True
                w2.process_all(timeout=10.0)
        return r

    scope_mod.commit_store_transaction = commit_then_yield
    w1.process_all(timeout=10.0)
    live = store.retrieve(wf.id)
    rebuilt = EventReplayer(es).rebuild_workflow_state(wf.id)
    for e in es.get_events_for_workflow(wf.id):
        print(f"  {e.sequence:3d} {e.event_type.value:18s} {e.data.get('name') or ''} {e.data.get('status') or ''}")
    diffs = []
    for s in live.stages:
        for t in s.tasks:
            r = rebuilt["tasks"].get(t.id, {}).get("status")
            if r != t.status.name:
                diffs.append(f"task {t.name}: store={t.status.name} replay={r}")
        r = rebuilt["stages"].get(s.id, {}).get("status")
        if r != s.status.name:
            diffs.append(f"stage {s.ref_id}: store={s.status.name} replay={r}")
    if rebuilt["status"] != live.status.name:
        diffs.append(f"workflow: store={live.status.name} replay={rebuilt['status']}")
    print("store :", live.status.name, [(s.ref_id, s.status.name, [t.status.name for t in s.tasks]) for s in live.stages])
    if diffs:
        print("DIVERGENCE REPRODUCED:\n  " + "\n  ".join(diffs))
        return 1
    print("ok: replay reproduces the stored state")
    return 0


if __name__ == "__main__":
    sys.exit(main())
