import sys, tempfile
sys.path.insert(0, "/repo/src")
from stabilize import *
from stabilize.models.workflow import Workflow
from stabilize.models.task import TaskExecution
from stabilize.handlers import SignalStageHandler, StartStageHandler
from stabilize.queue.messages import SignalStage
d=tempfile.mkdtemp(); cs=f"sqlite:///{d}/t.db"
store=SqliteWorkflowStore(cs, create_tables=True); q=SqliteQueue(cs); q._create_table()
N=[0]
class T(Task):
    def execute(self, stage):
        N[0]+=1; return TaskResult.success()
reg=TaskRegistry(); reg.register("t", T)
p=QueueProcessor(q, store=store, task_registry=reg)
wf=Workflow.create(application="a", name="n", stages=[StageExecution(ref_id="s", type="test", name="s", tasks=[TaskExecution.create(name="t", implementing_class="t", stage_start=True, stage_end=True)])])
store.store(wf); Orchestrator(q).start(wf)
# a "concurrent worker" delivers a persistent signal between the claim commit and the plan commit
orig=StartStageHandler._plan_stage
def patched(self, stage):
    SignalStageHandler(q, store).handle(SignalStage(execution_type="PIPELINE", execution_id=stage.execution.id, stage_id=stage.id, signal_name="go", persistent=True))
    return orig(self, stage)
StartStageHandler._plan_stage=patched
p.process_all(timeout=5)
r=store.retrieve(wf.id)
print("stage", r.stages[0].status, "tasks", [t.status.name for t in r.stages[0].tasks], "wf", r.status, "queue", q.size(), "executed", N[0])
