"""C05.R3 finding: StartTask marks a disabled SkippableTask SKIPPED and then pushes CompleteTask(SKIPPED), whose handler only
acts on RUNNING tasks: the message is ignored, the stage stays RUNNING with an empty queue (workflow silently stuck)."""
import os, sys, tempfile
sys.path.insert(0, os.environ.get("REPO_SRC", "/repo/src"))
from stabilize import *
from stabilize.models.workflow import Workflow
from stabilize.models.task import TaskExecution
from stabilize.tasks.interface import SkippableTask
d = tempfile.mkdtemp(); cs = f"sqlite:///{d}/t.db"
store = SqliteWorkflowStore(cs, create_tables=True); q = SqliteQueue(cs); q._create_table()
orch = Orchestrator(q, store)
class Off(SkippableTask):
    def is_enabled(self, stage): return False
    def do_execute(self, stage): return TaskResult.success()
    def execute(self, stage): return TaskResult.success()
class Ok(Task):
    def execute(self, stage): return TaskResult.success()
reg = TaskRegistry(); reg.register("off", Off); reg.register("ok", Ok)
p = QueueProcessor(q, store=store, task_registry=reg)
wf = Workflow.create(application="a", name="n", stages=[
    StageExecution(ref_id="a", type="test", name="a", tasks=[TaskExecution.create(name="skipme", implementing_class="off", stage_start=True), TaskExecution.create(name="t2", implementing_class="ok", stage_end=True)])])
store.store(wf); orch.start(wf)
p.process_all(timeout=8)
r = store.retrieve(wf.id)
print("workflow", r.status.name, {s.ref_id: (s.status.name, [t.status.name for t in s.tasks]) for s in r.stages}, "queue", q.size())
ok = r.status.name == "SUCCEEDED"
print("FINISHED" if ok else "STUCK (queue empty, stage RUNNING)")
sys.exit(0 if ok else 1)
