"""Wedge B: a parent whose own task fails terminally while a pre-declared STAGE_AFTER child is
still NOT_STARTED is never finalized.

Workflow shape (built exactly like tests/test_synthetic_stage_edge_cases.py does):

    parent_stage  (top-level, one task "main" that returns TaskResult.terminal(...))
      `- after_stage (synthetic_stage_owner=STAGE_AFTER, parent_stage_id=parent.id,
                      one task that would succeed; pre-declared, so NOT_STARTED when the parent fails)

Expected: the parent ends TERMINAL, the workflow ends TERMINAL (the after-stage is never started -
after-stages only run after successful core work; on failure only on_failure stages are planned).

Observed on HEAD: CompleteStage(parent) -> determine_status() == TERMINAL -> `elif status.is_failure:`
computes in_flight_children = [after stages that are not complete]; a NOT_STARTED after-stage is
"not complete", so it is counted as "in flight", the message is marked processed and dropped.
Nothing ever starts, skips or cancels the after-stage and nobody finalizes the parent.

Delivery order: plain FIFO (single linear chain of messages - there is no other order).

WITH_SIBLING=1 adds an independent top-level stage next to the parent ("failing branch next to a
running one"). That is NOT the drained-queue wedge: the sibling's completion pushes CompleteWorkflow,
which sees the parent still RUNNING and re-queues itself with a delay (retry_count+1) until
max_stage_wait_retries, then force-marks the workflow TERMINAL. The pure wedge needs the failing parent
to be the only source of CompleteWorkflow (default shape).

exit 1 = wedge reproduced (workflow non-final, queue empty); exit 0 = not reproduced.
"""

import os
import sys
import tempfile

REPO_ROOT = os.environ.get("REPO_ROOT", "/repo")
sys.path.insert(0, os.path.join(REPO_ROOT, "src"))

from stabilize import (  # noqa: E402
    Orchestrator,
    QueueProcessor,
    SqliteQueue,
    SqliteWorkflowStore,
    StageExecution,
    Task,
    TaskRegistry,
    TaskResult,
)
from stabilize.models.stage import SyntheticStageOwner  # noqa: E402
from stabilize.models.task import TaskExecution  # noqa: E402
from stabilize.models.workflow import Workflow  # noqa: E402

import stabilize  # noqa: E402

WITH_SIBLING = os.environ.get("WITH_SIBLING", "0") == "1"
ran: list[str] = []


class Ok(Task):
    def execute(self, stage: StageExecution) -> TaskResult:
        ran.append(stage.ref_id)
        return TaskResult.success()


class HardFail(Task):
    def execute(self, stage: StageExecution) -> TaskResult:
        ran.append(stage.ref_id)
        return TaskResult.terminal("main work failed")


def one(name: str, impl: str) -> list[TaskExecution]:
    return [TaskExecution.create(name=name, implementing_class=impl, stage_start=True, stage_end=True)]


def main() -> int:
    print(f"stabilize imported from: {os.path.dirname(stabilize.__file__)}  (with_sibling={WITH_SIBLING})")
    d = tempfile.mkdtemp(prefix="wedge-b-")
    cs = f"sqlite:///{d}/t.db"
    store = SqliteWorkflowStore(cs, create_tables=True)
    queue = SqliteQueue(cs)
    queue._create_table()
    reg = TaskRegistry()
    reg.register("ok", Ok)
    reg.register("hardfail", HardFail)

    parent = StageExecution(ref_id="parent_stage", type="test", name="Parent", tasks=one("main", "hardfail"))
    after = StageExecution(
        ref_id="after_stage",
        type="test",
        name="After",
        synthetic_stage_owner=SyntheticStageOwner.STAGE_AFTER,
        tasks=one("teardown", "ok"),
    )
    stages = [parent, after]
    if WITH_SIBLING:
        stages.append(StageExecution(ref_id="sibling", type="test", name="Sibling", tasks=one("work", "ok")))
    wf = Workflow.create(application="demo", name="wedge-b", stages=stages)
    after.parent_stage_id = parent.id

    store.store(wf)
    Orchestrator(queue).start(wf)
    processor = QueueProcessor(queue, store=store, task_registry=reg)
    processor.process_all(timeout=10.0)

    r = store.retrieve(wf.id)
    qsize = queue.size()
    print(f"workflow: {r.status.name}")
    for s in r.stages:
        owner = s.synthetic_stage_owner.name if s.synthetic_stage_owner else "-"
        print(f"  stage {s.ref_id:13s} owner={owner:12s} {s.status.name:16s} tasks={[t.status.name for t in s.tasks]}")
    print(f"tasks executed: {ran}")
    print(f"queue size: {qsize}")

    stuck = (not r.status.is_complete) and qsize == 0
    if stuck:
        print("WEDGE B REPRODUCED: queue drained, no handler running, workflow is non-final and not waiting on anything")
        return 1
    if r.status.is_complete:
        print("no wedge: workflow reached a final status")
    else:
        print("queue not drained yet (delayed/polling messages remain) - not the drained-queue wedge")
    return 0


if __name__ == "__main__":
    sys.exit(main())
