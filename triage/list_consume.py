"""exploration: consume-only paths per handler with their recorded path condition"""
import sys, time
from sa.context import Context
from sa.consume import consume_paths
from sa.handlers import registered_handlers
ctx = Context(sys.argv[1] if len(sys.argv) > 1 and sys.argv[1].startswith("/") else "/repo")
only = [a for a in sys.argv[1:] if not a.startswith("/")]
RET = {"CompleteStageHandler", "JumpToStageHandler"}
SKIP = {"StartStageHandler", "RunTaskHandler"}
for h in registered_handlers(ctx.prog):
    if h.marker or h.cls.name in SKIP or (only and h.cls.name not in only):
        continue
    t = time.time()
    cps, n = consume_paths(ctx, h, "ret" if h.cls.name in RET else "all")
    print(f"{h.cls.name}: paths={n} consume-only={len(cps)} {time.time()-t:.1f}s")
    for c in cps:
        print("   ", c.shape, "|", " ; ".join(c.ordered))
