"""Crash-enumeration harness used while exploring property C01 (not a deliverable demo).

For each workflow of a small family it runs an uninterrupted reference run counting
durable commits, then for every k "kills" the worker right after commit #k (a
BaseException raised from Connection.commit after the real commit), rebuilds
store/queue/processor from the file, lapses all queue locks, runs one recovery
sweep, drains (delays are fast-forwarded) and compares final statuses, outputs,
queue size and what every task execution saw in its stage context.

usage: crash_enum_harness.py [family[:k1,k2,...]] ...   families: linear diamond
       multitask fail poll flaky loop
"""
from __future__ import annotations

import json
import os
import shutil
import sqlite3
import sys
import tempfile
from datetime import timedelta
from typing import Any

ROOT = os.environ.get("REPO_ROOT") or os.path.abspath(os.path.join(os.path.dirname(__file__), "..", ".."))
sys.path.insert(0, os.path.join(ROOT, "src"))

import logging

logging.disable(logging.CRITICAL)

from stabilize import (  # noqa: E402
    Orchestrator,
    QueueProcessor,
    RunTaskHandler,
    SqliteQueue,
    SqliteWorkflowStore,
    StageExecution,
    Task,
    TaskExecution,
    TaskRegistry,
    TaskResult,
    Workflow,
    WorkflowStatus,
)
from stabilize.errors import TransientError  # noqa: E402
from stabilize.persistence.connection import ConnectionManager, SingletonMeta  # noqa: E402
from stabilize.queue.processor.config import QueueProcessorConfig  # noqa: E402
from stabilize.recovery import WorkflowRecovery  # noqa: E402


class Crash(BaseException):
    pass


class Ctl:
    count = 0
    crash_at = -1
    enabled = False


class CrashConn(sqlite3.Connection):
    def commit(self) -> None:  # type: ignore[override]
        dirty = self.in_transaction
        super().commit()
        if dirty and Ctl.enabled:
            Ctl.count += 1
            if Ctl.count == Ctl.crash_at:
                raise Crash(f"crash after commit #{Ctl.count}")


_orig_connect = sqlite3.connect


def _connect(*a: Any, **kw: Any) -> sqlite3.Connection:
    kw.setdefault("factory", CrashConn)
    return _orig_connect(*a, **kw)


sqlite3.connect = _connect  # type: ignore[assignment]

# ---- side-effect log: lives outside the process (survives "crash")
EXEC_LOG: list[tuple[str, dict]] = []


class Ok(Task):
    def execute(self, stage: StageExecution) -> TaskResult:
        seen = {k: v for k, v in stage.context.items() if k.startswith("out_")}
        EXEC_LOG.append((stage.ref_id, seen))
        return TaskResult.success(outputs={f"out_{stage.ref_id}": stage.ref_id.upper()})


class Fail(Task):
    def execute(self, stage: StageExecution) -> TaskResult:
        EXEC_LOG.append((stage.ref_id, {}))
        return TaskResult.terminal("boom")


class Poll(Task):
    def execute(self, stage: StageExecution) -> TaskResult:
        n = stage.context.get("polls", 0) + 1
        EXEC_LOG.append((stage.ref_id, {"poll": n}))
        if n < 3:
            return TaskResult.running(context={"polls": n})
        return TaskResult.success(outputs={f"out_{stage.ref_id}": n}, context={"polls": n})


class Flaky(Task):
    def execute(self, stage: StageExecution) -> TaskResult:
        n = stage.context.get("tries", 0) + 1
        EXEC_LOG.append((stage.ref_id, {"try": n}))
        if n < 3:
            raise TransientError("flaky", context_update={"tries": n})
        return TaskResult.success(outputs={f"out_{stage.ref_id}": n})


class Loop(Task):
    def execute(self, stage: StageExecution) -> TaskResult:
        n = stage.context.get("iter", 0)
        EXEC_LOG.append((stage.ref_id, {"iter": n}))
        if n < 2:
            return TaskResult.jump_to(stage.context["jump_target"], context={"iter": n + 1})
        return TaskResult.success(outputs={f"out_{stage.ref_id}": n})


def registry() -> TaskRegistry:
    r = TaskRegistry()
    r.register("ok", Ok)
    r.register("fail", Fail)
    r.register("poll", Poll)
    r.register("flaky", Flaky)
    r.register("loop", Loop)
    return r


def st(ref: str, impl: str = "ok", req: set[str] | None = None, ntasks: int = 1, **kw: Any) -> StageExecution:
    tasks = [
        TaskExecution.create(f"{ref}-t{i}", impl, stage_start=(i == 0), stage_end=(i == ntasks - 1))
        for i in range(ntasks)
    ]
    ctx = kw.pop("context", {})
    return StageExecution(
        ref_id=ref, type="test", name=ref, requisite_stage_ref_ids=req or set(), tasks=tasks, context=ctx, **kw
    )


def wf_linear() -> Workflow:
    return Workflow.create("app", "linear", [st("a"), st("b", req={"a"}), st("c", req={"b"})])


def wf_diamond() -> Workflow:
    return Workflow.create(
        "app", "diamond", [st("a"), st("b", req={"a"}), st("c", req={"a"}), st("d", req={"b", "c"})]
    )


def wf_multitask() -> Workflow:
    return Workflow.create("app", "multi", [st("a", ntasks=3), st("b", req={"a"})])


def wf_fail() -> Workflow:
    return Workflow.create("app", "fail", [st("a"), st("b", "fail", req={"a"}), st("c", req={"b"})])


def wf_poll() -> Workflow:
    return Workflow.create("app", "poll", [st("a", "poll"), st("b", req={"a"})])


def wf_flaky() -> Workflow:
    return Workflow.create("app", "flaky", [st("a", "flaky"), st("b", req={"a"})])


def wf_loop() -> Workflow:
    return Workflow.create(
        "app", "loop", [st("a"), st("b", "loop", req={"a"}, context={"jump_target": "a"}), st("c", req={"b"})]
    )


class Engine:
    def __init__(self, db: str, create: bool = False):
        SingletonMeta.reset(ConnectionManager)
        RunTaskHandler._executing_tasks.clear()
        cs = f"sqlite:///{db}"
        self.store = SqliteWorkflowStore(cs, create_tables=create)
        self.queue = SqliteQueue(cs, table_name="queue_messages", lock_duration=timedelta(seconds=60))
        if create:
            self.queue._create_table()
        self.proc = QueueProcessor(
            self.queue,
            config=QueueProcessorConfig(retry_delay=timedelta(seconds=0)),
            store=self.store,
            task_registry=registry(),
        )
        self.orch = Orchestrator(self.queue, self.store) if _orch_takes_store() else Orchestrator(self.queue)
        self.db = db

    def conn(self) -> sqlite3.Connection:
        return self.store._get_connection()

    def drain(self, limit: int = 2000) -> int:
        n = 0
        while n < limit:
            c = self.conn()
            # make delayed messages due now (skip waiting for backoff)
            c.execute("UPDATE queue_messages SET deliver_at = '2000-01-01T00:00:00+00:00' WHERE locked_until IS NULL")
            c.commit()
            if self.queue.size() == 0:
                break
            if not self.proc.process_one():
                break
            n += 1
        return n

    def expire_locks(self) -> None:
        c = self.conn()
        c.execute("UPDATE queue_messages SET locked_until = '2000-01-01T00:00:00+00:00' WHERE locked_until IS NOT NULL")
        c.commit()


def _orch_takes_store() -> bool:
    import inspect

    return "store" in inspect.signature(Orchestrator.__init__).parameters


def snapshot(e: Engine, wid: str) -> dict:
    wf = e.store.retrieve(wid)
    return {
        "wf": wf.status.name,
        "stages": {s.ref_id: s.status.name for s in wf.stages},
        "tasks": {s.ref_id: [t.status.name for t in s.tasks] for s in wf.stages},
        "outputs": {s.ref_id: dict(s.outputs) for s in wf.stages},
        "queue": e.queue.size(),
    }


def run_clean(make: Any) -> tuple[dict, list, int]:
    d = tempfile.mkdtemp()
    db = os.path.join(d, "w.db")
    EXEC_LOG.clear()
    Ctl.enabled = False
    e = Engine(db, create=True)
    wf = make()
    e.store.store(wf)
    Ctl.count = 0
    Ctl.crash_at = -1
    Ctl.enabled = True
    e.orch.start(wf)
    e.drain()
    Ctl.enabled = False
    snap = snapshot(e, wf.id)
    log = list(EXEC_LOG)
    shutil.rmtree(d, ignore_errors=True)
    return snap, log, Ctl.count


def run_crash(make: Any, k: int, k2: int | None = None, do_recovery: bool = True) -> tuple[dict, list]:
    d = tempfile.mkdtemp()
    db = os.path.join(d, "w.db")
    EXEC_LOG.clear()
    Ctl.enabled = False
    e = Engine(db, create=True)
    wf = make()
    e.store.store(wf)
    Ctl.count = 0
    Ctl.crash_at = k
    Ctl.enabled = True
    try:
        e.orch.start(wf)
        e.drain()
    except Crash:
        pass
    Ctl.enabled = False
    # restart
    e = Engine(db)
    e.expire_locks()
    if do_recovery:
        WorkflowRecovery(e.store, e.queue).recover_pending_workflows()
    e.drain()
    snap = snapshot(e, wf.id)
    log = list(EXEC_LOG)
    shutil.rmtree(d, ignore_errors=True)
    return snap, log


FAMILY = {
    "linear": wf_linear,
    "diamond": wf_diamond,
    "multitask": wf_multitask,
    "fail": wf_fail,
    "poll": wf_poll,
    "flaky": wf_flaky,
    "loop": wf_loop,
}


def main() -> int:
    names = sys.argv[1:] or list(FAMILY)
    bad = 0
    for spec in names:
        name, _, ks = spec.partition(":")  # e.g. "linear:35,61" limits the crash points
        make = FAMILY[name]
        base, baselog, n = run_clean(make)
        print(f"== {name}: {n} commits; base={json.dumps(base)}")
        print(f"   log={baselog}")
        for k in [int(x) for x in ks.split(",")] if ks else range(1, n + 1):
            snap, log = run_crash(make, k)
            cmp_a = {x: snap[x] for x in ("wf", "stages", "tasks", "outputs", "queue")}
            cmp_b = {x: base[x] for x in ("wf", "stages", "tasks", "outputs", "queue")}
            seen_ok = {tuple((r, json.dumps(s, sort_keys=True)) for r, s in baselog)}
            extra = len(log) - len(baselog)
            flag = ""
            if cmp_a != cmp_b:
                flag += " STATE-DIFF"
            if set(map(repr, log)) != set(map(repr, baselog)):
                flag += " DATA-DIFF"
            if extra > 1 or extra < 0:
                flag += f" EXEC-COUNT({extra:+d})"
            if flag:
                bad += 1
                print(f"  k={k}:{flag}\n      snap={json.dumps(snap)}\n      log={log}")
    print("violations:", bad)
    return 1 if bad else 0


if __name__ == "__main__":
    sys.exit(main())
