import sys, tempfile
sys.path.insert(0, "/repo/src")
from stabilize import *
from stabilize.models.workflow import Workflow
from stabilize.models.task import TaskExecution
from stabilize.models.status import WorkflowStatus
from stabilize.handlers import SkipStageHandler
from stabilize.queue.messages import SkipStage
from stabilize.events import configure_event_sourcing, SqliteEventStore
d=tempfile.mkdtemp(); cs=f"sqlite:///{d}/t.db"
store=SqliteWorkflowStore(cs, create_tables=True); q=SqliteQueue(cs); q._create_table()
es=SqliteEventStore(cs, create_tables=True)
rec=configure_event_sourcing(es)
wf=Workflow.create(application="a", name="n", stages=[StageExecution(ref_id="s", type="test", name="s", tasks=[TaskExecution.create(name="t", implementing_class="t", stage_start=True, stage_end=True)])])
store.store(wf)
sid=wf.stages[0].id
orig=store.get_downstream_stages
done=[False]
def patched(eid, ref):
    if not done[0]:
        done[0]=True
        f=store.retrieve_stage(sid); f.status=WorkflowStatus.RUNNING; store.store_stage(f)  # concurrent StartStage claim wins
    return orig(eid, ref)
store.get_downstream_stages=patched
SkipStageHandler(q, store).handle(SkipStage(execution_type="PIPELINE", execution_id=wf.id, stage_id=sid, message_id="m1"))
print("stage status:", store.retrieve_stage(sid).status)
c=store._get_connection()
print("events:", [tuple(r) for r in c.execute("select event_type, entity_id=? from events", (sid,))])
