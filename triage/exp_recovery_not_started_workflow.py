"""A recovery sweep over a workflow that has not started yet starts its stages directly (C10).

Case A (healthy run): workflow W2 of a pipeline limited to one concurrent execution is submitted while W1 of the same
pipeline is RUNNING. Its StartWorkflow is still queued (W2 is NOT_STARTED) when a sweep runs. Without the sweep W2 ends up
BUFFERED and nothing of it runs. With the sweep its initial stage is started through StartStage, bypassing StartWorkflow's
concurrency gate: W2's task executes while W1 is running.
Case B (lost StartWorkflow): W is NOT_STARTED and its StartWorkflow is gone. The sweep pushes StartStage instead of
StartWorkflow: all stages run and succeed, but the workflow row is still NOT_STARTED and CompleteWorkflow can never store
NOT_STARTED -> SUCCEEDED.

exit 1 = either case reproduced, exit 0 = neither.
"""
import logging
import os
import sys
import tempfile

REPO_ROOT = os.environ.get("REPO_ROOT", "/repo")
sys.path.insert(0, os.path.join(REPO_ROOT, "src"))

from stabilize import Orchestrator  # noqa: E402
from stabilize.models.stage import StageExecution  # noqa: E402
from stabilize.models.task import TaskExecution  # noqa: E402
from stabilize.models.workflow import Workflow  # noqa: E402
from stabilize.persistence.sqlite import SqliteWorkflowStore  # noqa: E402
from stabilize.queue import SqliteQueue  # noqa: E402
from stabilize.queue.processor import QueueProcessor  # noqa: E402
from stabilize.recovery import WorkflowRecovery  # noqa: E402
from stabilize.tasks.interface import Task  # noqa: E402
from stabilize.tasks.registry import TaskRegistry  # noqa: E402
from stabilize.tasks.result import TaskResult  # noqa: E402

logging.disable(logging.CRITICAL)
ran = []


class Ok(Task):
    def execute(self, stage):
        ran.append(stage.execution.name + ":" + stage.ref_id)
        return TaskResult.success()


class Wait(Task):
    def execute(self, stage):
        return TaskResult.suspend()


def wf(name, impl, limited=False):
    w = Workflow.create(application="demo", name=name, pipeline_config_id="p" if limited else None, stages=[StageExecution(ref_id="a", type="demo", name="a", tasks=[
        TaskExecution.create(name="t", implementing_class=impl, stage_start=True, stage_end=True)])])
    if limited:
        w.is_limit_concurrent = True
        w.max_concurrent_executions = 1
    return w


def env():
    tmp = tempfile.mkdtemp(prefix="rec-notstarted-")
    url = f"sqlite:///{tmp}/demo.db"
    store = SqliteWorkflowStore(url, create_tables=True)
    queue = SqliteQueue(url)
    queue._create_table()
    reg = TaskRegistry()
    reg.register("ok", Ok)
    reg.register("wait", Wait)
    return store, queue, QueueProcessor(queue, store=store, task_registry=reg)


def case_a() -> bool:
    store, queue, proc = env()
    w1 = wf("W1", "wait", limited=True)
    store.store(w1)
    Orchestrator(queue).start(w1)
    proc.process_all(timeout=10.0)                       # W1 RUNNING (its stage waits for a signal)
    w2 = wf("W2", "ok", limited=True)
    store.store(w2)
    Orchestrator(queue).start(w2)                        # StartWorkflow(W2) queued, W2 NOT_STARTED: a healthy run
    WorkflowRecovery(store, queue).recover_pending_workflows()
    try:
        proc.process_all(timeout=10.0)
    except Exception as e:                               # noqa: BLE001
        print("A: processor raised", type(e).__name__, str(e)[:120])
    s1, s2 = store.retrieve(w1.id).status.name, store.retrieve(w2.id).status.name
    print(f"A: W1 {s1}, W2 {s2}, tasks executed: {ran}")
    return any(x.startswith("W2:") for x in ran)


def case_b() -> bool:
    del ran[:]
    store, queue, proc = env()
    w = wf("W", "ok")
    store.store(w)                                       # StartWorkflow never arrives (lost)
    WorkflowRecovery(store, queue).recover_pending_workflows()
    try:
        proc.process_all(timeout=10.0)
    except Exception as e:                               # noqa: BLE001
        print("B: processor raised", type(e).__name__)
    r = store.retrieve(w.id)
    print(f"B: workflow {r.status.name}, stages {[s.status.name for s in r.stages]}, tasks executed: {ran}, queue size {queue.size()}")
    return r.status.name != "SUCCEEDED"


def main() -> int:
    a = case_a()
    b = case_b()
    if a or b:
        print("DEFECT REPRODUCED:" + (" [A] a sweep made a workflow run that the concurrency limit keeps BUFFERED" if a else "") + (" [B] a NOT_STARTED workflow was 'recovered' stage by stage and cannot complete" if b else ""))
        return 1
    print("ok: a workflow that has not started is restarted through StartWorkflow only")
    return 0


if __name__ == "__main__":
    sys.exit(main())
