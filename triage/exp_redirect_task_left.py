"""Forward jump: the source task's final status depends on the delivery order of the two messages RunTask commits together (C02).

a (one task: jump_to("c")) -> b -> c.  RunTask(a) commits {JumpToStage, CompleteTask(REDIRECT)}.
In order (JumpToStage first): reset_stage_to_succeeded turns the RUNNING task SUCCEEDED; the late CompleteTask is dropped.
Reordered (CompleteTask first): the task is stored REDIRECT; reset_stage_to_succeeded only converts RUNNING tasks, so the stage
ends SUCCEEDED with its task still REDIRECT (a non-final status) - a different result for the same workflow.

exit 1 = the two orders end with different task statuses, exit 0 = same.
"""
import os
import sys

sys.path.insert(0, os.path.dirname(os.path.abspath(__file__)))
from tri5_rig import Rig  # noqa: E402

from stabilize.models.stage import StageExecution  # noqa: E402
from stabilize.models.task import TaskExecution  # noqa: E402
from stabilize.queue.messages import CompleteTask, JumpToStage  # noqa: E402
from stabilize.tasks.interface import Task  # noqa: E402
from stabilize.tasks.result import TaskResult  # noqa: E402


class Jump(Task):
    def execute(self, stage):
        return TaskResult.jump_to("c")


class Ok(Task):
    def execute(self, stage):
        return TaskResult.success()


def st(ref, impl, **kw):
    return StageExecution(ref_id=ref, type="demo", name=ref, tasks=[TaskExecution.create(name=ref + "-t", implementing_class=impl, stage_start=True, stage_end=True)], **kw)


def run(first) -> dict:
    rig = Rig([st("a", "jump"), st("b", "ok", requisite_stage_ref_ids={"a"}), st("c", "ok", requisite_stage_ref_ids={"b"})], {"jump": Jump, "ok": Ok})
    rig.drain_fifo(until=lambda: any(isinstance(m, JumpToStage) for m in rig.pending()))
    rig.drain_fifo(hold=lambda m: not isinstance(m, first) and isinstance(m, (JumpToStage, CompleteTask)), until=lambda: not any(isinstance(m, first) for m in rig.pending()))
    rig.drain_fifo()
    snap = rig.snapshot()
    return {"workflow": snap["workflow"], "stages": snap["stages"], "tasks": snap["tasks"]}


def main() -> int:
    in_order = run(JumpToStage)
    reordered = run(CompleteTask)
    print("JumpToStage first :", in_order)
    print("CompleteTask first:", reordered)
    if in_order != reordered:
        print("DEFECT REPRODUCED: the result depends on the delivery order")
        return 1
    print("ok: same result in both orders")
    return 0


if __name__ == "__main__":
    sys.exit(main())
