"""Deferred choice: a sibling that left NOT_STARTED WITHOUT starting (SKIPPED / CANCELED) is taken for the winner (C11).

Case A (plain FIFO, one worker): group G = {x, y}; x is disabled by its own condition (stageEnabled false) and ends SKIPPED.
When y's StartStage is handled, the fast path `_is_deferred_choice_claimed` sees a sibling whose status is not NOT_STARTED and
cancels y: the group has ZERO winners - "of the stages in one deferred-choice group exactly one ever starts".
Case B (duplicate StartStage for the winner): x wins and starts, y is canceled as the loser; a second StartStage(x) (a later
upstream's trigger / a redelivery) now sees the CANCELED loser as "a sibling that already claimed the group" and pushes
CancelStage(x): the running winner is canceled, nothing of the group completes.

exit 1 = a case reproduced, exit 0 = neither.
"""
import os
import sys

sys.path.insert(0, os.path.dirname(os.path.abspath(__file__)))
from tri5_rig import Rig  # noqa: E402

from stabilize.models.stage import StageExecution  # noqa: E402
from stabilize.models.task import TaskExecution  # noqa: E402
from stabilize.queue.messages import RunTask, StartStage  # noqa: E402
from stabilize.tasks.interface import Task  # noqa: E402
from stabilize.tasks.result import TaskResult  # noqa: E402

ran = []


class Ok(Task):
    def execute(self, stage):
        ran.append(stage.ref_id)
        return TaskResult.success()


def st(ref, **kw):
    return StageExecution(ref_id=ref, type="demo", name=ref, tasks=[TaskExecution.create(name=ref + "-t", implementing_class="ok", stage_start=True, stage_end=True)], **kw)


def case_a() -> bool:
    del ran[:]
    x = st("x", deferred_choice_group="G", context={"stageEnabled": {"type": "expression", "expression": "false"}})
    p = st("p")
    y = st("y", deferred_choice_group="G", requisite_stage_ref_ids={"p"})       # y becomes startable after x was skipped
    rig = Rig([x, p, y], {"ok": Ok})
    rig.drain_fifo()
    snap = rig.snapshot()
    print("A:", snap["workflow"], snap["stages"], "tasks executed:", ran)
    return "y" not in ran


def case_b() -> bool:
    del ran[:]
    x = st("x", deferred_choice_group="G")
    y = st("y", deferred_choice_group="G")
    rig = Rig([x, y], {"ok": Ok})
    rig.drain_fifo(until=lambda: any(rig.is_for(m, RunTask, "x") for m in rig.pending()) and rig.stage("y").status.name == "CANCELED")
    if rig.stage("x").status.name != "RUNNING":
        print("B: scenario not reached", rig.snapshot()["stages"])
        return False
    rig.q.push(StartStage(execution_type="PIPELINE", execution_id=rig.wf.id, stage_id=rig.stage("x").id))     # duplicate trigger for the winner
    dup = [m for m in rig.pending() if rig.is_for(m, StartStage, "x")][0]
    rig.deliver(dup, "   <- duplicate StartStage for the running winner")
    rig.drain_fifo()
    snap = rig.snapshot()
    print("B:", snap["workflow"], snap["stages"], "tasks executed:", ran)
    return snap["stages"]["x"] == "CANCELED"


def main() -> int:
    a, b = case_a(), case_b()
    if a or b:
        print("DEFECT REPRODUCED:" + (" [A] zero winners: the only enabled branch canceled itself" if a else "") + (" [B] the running winner was canceled by its own duplicate StartStage" if b else ""))
        return 1
    print("ok: exactly one stage of the group started and it was not canceled by a duplicate")
    return 0


if __name__ == "__main__":
    sys.exit(main())
