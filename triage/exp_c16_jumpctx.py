"""C16 experiment: a jump_context key that collides with a key the target inherited from an ancestor must win
(it is set on the stage itself). r -> a -> b ; r outputs {"x": 1}; b jumps to a once with jump_context {"x": 99}."""
import os, sys, tempfile
ROOT = os.environ.get("REPO_ROOT", "/repo")
sys.path.insert(0, ROOT + "/src")
from stabilize import TaskResult
from stabilize.models.stage import StageExecution
from stabilize.models.task import TaskExecution
from stabilize.models.workflow import Workflow
from stabilize.persistence.sqlite import SqliteWorkflowStore
from stabilize.queue.sqlite import SqliteQueue
from stabilize.queue.processor import QueueProcessor
from stabilize.orchestrator import Orchestrator
from stabilize.tasks.registry import TaskRegistry
from stabilize.tasks.interface import Task

seen = []
class Root(Task):
    def execute(self, stage):
        return TaskResult.success(outputs={"x": 1})
class A(Task):
    def execute(self, stage):
        seen.append(stage.context.get("x"))
        return TaskResult.success()
class B(Task):
    jumped = False
    def execute(self, stage):
        if not B.jumped:
            B.jumped = True
            return TaskResult.jump_to("a", context={"x": 99})
        return TaskResult.success()

d = tempfile.mkdtemp(); db = f"sqlite:///{d}/t.db"
store = SqliteWorkflowStore(connection_string=db, create_tables=True)
q = SqliteQueue(connection_string=db, table_name="queue_messages"); q._create_table()
reg = TaskRegistry(); reg.register("root", Root); reg.register("a", A); reg.register("b", B)
proc = QueueProcessor(q, store=store, task_registry=reg)
def t(impl): return [TaskExecution.create(name=impl, implementing_class=impl, stage_start=True, stage_end=True)]
wf = Workflow.create(application="t", name="jumpctx", stages=[
    StageExecution(ref_id="r", tasks=t("root")),
    StageExecution(ref_id="a", requisite_stage_ref_ids={"r"}, tasks=t("a")),
    StageExecution(ref_id="b", requisite_stage_ref_ids={"a"}, tasks=t("b"), context={"_max_jumps": 3}),
])
store.store(wf); Orchestrator(q).start(wf); proc.process_all(timeout=20.0)
r = store.retrieve(wf.id)
print("workflow", r.status.name, "x seen by a per iteration:", seen)
ok = seen == [1, 99]
print("OK" if ok else "jump_context value lost: the re-armed target does not see the value the jump set on it")
sys.exit(0 if ok else 1)
