import sys, time, collections
from sa.context import Context
from sa.consume import consume_paths
from sa.handlers import registered_handlers
ctx = Context("/repo")
name = sys.argv[1]
h = [h for h in registered_handlers(ctx.prog) if h.cls.name == name][0]
t = time.time()
cps, n = consume_paths(ctx, h, "ret")
print(f"{name}: paths={n} consume-only={len(cps)} {time.time()-t:.1f}s")
cnt = collections.Counter()
for c in cps:
    cnt[(c.shape, c.ordered)] += 1
for (shape, ordered), k in sorted(cnt.items(), key=lambda x: (x[0][0], len(x[0][1]))):
    print("   ", shape, "|", " ; ".join(ordered))
