"""exploration: probe each handler with every If test of its module as a recorded guard"""
import ast, sys, time
from sa.context import Context
from sa.paths import probe, Config, BASE
from sa.seqrules import path_infos
from sa.handlers import registered_handlers
ctx=Context('/repo')
only=sys.argv[1:]
for h in registered_handlers(ctx.prog):
    if h.marker or (only and h.cls.name not in only): continue
    mod=h.cls.module if hasattr(h.cls,'module') else None
    tests=set()
    import os
    MODE=os.environ.get("MODE","all")
    for n in ast.walk(h.cls.node):
        if isinstance(n,(ast.If,ast.IfExp,ast.While)):
            if MODE=="ret" and not (isinstance(n,ast.If) and (any(isinstance(x,ast.Return) for x in n.body) or any(isinstance(x,ast.Return) for x in n.orelse))): continue
            def leaves(e):
                if isinstance(e,ast.BoolOp):
                    for v in e.values: yield from leaves(v)
                elif isinstance(e,ast.UnaryOp) and isinstance(e.op,ast.Not): yield from leaves(e.operand)
                else: yield e
            for l in leaves(n.test): tests.add(" ".join(ast.unparse(l).split()))
    cfg=Config(watch=BASE.watch, guards=frozenset(tests), path_cap=30000)
    t=time.time()
    try:
        r=probe(ctx,h.cls.name,h.cls.module.name,h.cls.name+".handle",{"message":("message",h.message)},cfg,(h.cls.module.name,h.cls.name))
    except Exception as e:
        print(h.cls.name,"ERR",str(e)[:200]); continue
    pis=path_infos({h.cls.name:r})
    cons=[p for p in pis if p.outcome=="return" and not p.pushes() and not any(e.kind in("store_stage","update_workflow_status") for c in p.seq for e in c.effects)]
    print(f"{h.cls.name}: guards={len(tests)} paths={len(r.paths)} consume-only={len(cons)} {time.time()-t:.1f}s")
    seen=set()
    for p in cons:
        g=tuple((e.get('text'),e.get('truth')) for e in p.trace if e.kind=='guard')
        k=(p.shape,g)
        if k in seen: continue
        seen.add(k); print("   ",p.shape,"|"," ; ".join(f"{'' if t else 'NOT '}{r}" for r,t in g)[:300])
