"""CompleteWorkflow records workflow.completed BEFORE (outside) the transaction that stores the outcome.

Injected failure: the transaction's update_workflow_status raises (any failure of that commit - a crash, a locked database,
an error in the fan-out - has the same effect). Expected: no workflow.completed event is durable while the workflow row is
still RUNNING. Observed on the defective tree: the event is durable (and was published to subscribers); when the message is
redelivered the handler records it a second time.

exit 1 = phantom event reproduced, exit 0 = not reproduced.
"""
import os
import sys
import tempfile

REPO_ROOT = os.environ.get("REPO_ROOT", "/repo")
sys.path.insert(0, os.path.join(REPO_ROOT, "src"))

from stabilize import SqliteQueue, SqliteWorkflowStore, StageExecution  # noqa: E402
from stabilize.events import SqliteEventStore, configure_event_sourcing  # noqa: E402
from stabilize.handlers import CompleteWorkflowHandler  # noqa: E402
from stabilize.models.status import WorkflowStatus  # noqa: E402
from stabilize.models.task import TaskExecution  # noqa: E402
from stabilize.models.workflow import Workflow  # noqa: E402
from stabilize.persistence.sqlite.transaction import AtomicTransaction  # noqa: E402
from stabilize.queue.messages import CompleteWorkflow  # noqa: E402


def main() -> int:
    d = tempfile.mkdtemp(prefix="phantom-wf-")
    cs = f"sqlite:///{d}/t.db"
    store = SqliteWorkflowStore(cs, create_tables=True)
    q = SqliteQueue(cs)
    q._create_table()
    es = SqliteEventStore(cs, create_tables=True)
    configure_event_sourcing(es)
    wf = Workflow.create(application="a", name="n", stages=[StageExecution(ref_id="s", type="test", name="s", tasks=[
        TaskExecution.create(name="t", implementing_class="t", stage_start=True, stage_end=True)])])
    wf.status = WorkflowStatus.RUNNING
    wf.stages[0].status = WorkflowStatus.SUCCEEDED
    wf.stages[0].tasks[0].status = WorkflowStatus.SUCCEEDED
    store.store(wf)

    orig = AtomicTransaction.update_workflow_status
    fired = [False]

    def failing(self, workflow):
        if not fired[0]:
            fired[0] = True
            raise RuntimeError("injected: the commit that stores the outcome fails")
        return orig(self, workflow)

    AtomicTransaction.update_workflow_status = failing
    h = CompleteWorkflowHandler(q, store)
    msg = CompleteWorkflow(execution_type="PIPELINE", execution_id=wf.id, message_id="m1")
    try:
        h.handle(msg)
    except RuntimeError as e:
        print("handler failed as injected:", e)
    c = store._get_connection()
    status = store.retrieve(wf.id).status.name
    ev = [r[0] for r in c.execute("select event_type from events where event_type like 'workflow.%' order by sequence")]
    print("after the failed attempt: workflow row", status, "| durable workflow events:", ev)
    phantom = status == "RUNNING" and any(e in ("workflow.completed", "workflow.failed", "workflow.canceled") for e in ev)
    h.handle(msg)      # redelivery
    ev2 = [r[0] for r in c.execute("select event_type from events where event_type like 'workflow.%' order by sequence")]
    print("after the redelivery: workflow row", store.retrieve(wf.id).status.name, "| durable workflow events:", ev2)
    if phantom or ev2.count("workflow.completed") != 1:
        print("PHANTOM EVENT REPRODUCED: workflow.completed was durable while the workflow was still RUNNING" + (", and is now recorded twice" if ev2.count("workflow.completed") > 1 else ""))
        return 1
    print("ok: the event is durable exactly when the outcome is")
    return 0


if __name__ == "__main__":
    sys.exit(main())
