#!/usr/bin/env python
"""Candidate 2: CompleteStageHandler's generic error branch can raise again.

handlers/complete_stage/handler.py, on_stage():
  line 350  self.set_stage_status(stage, status)        # in memory: RUNNING -> SUCCEEDED/FAILED_CONTINUE/SKIPPED/...
  ...       get_downstream_stages / _apply_split_logic / _record_activated_branches /
            _update_join_tracking / txn.store_stage / _record_completion_event / push_message
  line 544  except Exception as e:
  line 559      self.set_stage_status(stage, WorkflowStatus.TERMINAL)   # SAME in-memory object, not re-fetched

Any non-transient exception raised between line 350 and the commit reaches
line 559 with stage.status already final in memory, the validated setter
rejects SUCCEEDED -> TERMINAL (InvalidStateTransitionError), the exception
leaves the handler, the store still says RUNNING (the transaction, if it was
opened at all, rolled back), the CompleteStage message is retried
max_attempts times and dead-lettered: the workflow stays RUNNING forever with
an empty queue.

Scenarios (all with the real QueueProcessor on a temp SQLite file):
  A  in-tree deterministic trigger: OR-split with a non-string condition
     (candidate 1) -> AttributeError in _apply_split_logic after line 350.
  B  independent of candidate 1: event sourcing enabled, a stage that ends
     FAILED_CONTINUE while its context carries a user value under the key
     "exception" that is a plain string -> _record_completion_event
     (handler.py:125) raises AttributeError inside the commit transaction.
  C  fault injection, persistent: store.get_downstream_stages raises a
     non-transient error for the stage every time (e.g. a store bug).
  D  fault injection, one-shot: same but only the first call fails
     (informational: the double raise turns into a plain retry and the run
     finishes normally).

Exit 1 when any of A/B/C ends with the queue drained and the workflow not in a
final status; 0 otherwise.
REPO_ROOT env var selects the source tree (default /repo).
"""

from __future__ import annotations

import logging
import os
import sys
import tempfile
import time
from datetime import timedelta

REPO_ROOT = os.environ.get("REPO_ROOT", "/repo")
sys.path.insert(0, os.path.join(REPO_ROOT, "src"))

import stabilize  # noqa: E402
from stabilize import (  # noqa: E402
    Orchestrator,
    QueueProcessor,
    SqliteQueue,
    SqliteWorkflowStore,
    StageExecution,
    Task,
    TaskRegistry,
    TaskResult,
)
from stabilize.events import (  # noqa: E402
    SqliteEventStore,
    configure_event_sourcing,
    reset_event_bus,
    reset_event_recorder,
)
from stabilize.models.stage import SplitType  # noqa: E402
from stabilize.models.status import WorkflowStatus  # noqa: E402
from stabilize.models.task import TaskExecution  # noqa: E402
from stabilize.models.workflow import Workflow  # noqa: E402
from stabilize.persistence.connection import ConnectionManager, SingletonMeta  # noqa: E402
from stabilize.queue.processor.config import QueueProcessorConfig  # noqa: E402

logging.disable(logging.CRITICAL)

FINAL = {"SUCCEEDED", "FAILED_CONTINUE", "TERMINAL", "CANCELED", "STOPPED", "SKIPPED"}


class Ok(Task):
    def execute(self, stage: StageExecution) -> TaskResult:
        return TaskResult.success(outputs={"x": 5})


class SoftFail(Task):
    def execute(self, stage: StageExecution) -> TaskResult:
        return TaskResult.failed_continue("soft failure")


def st(ref: str, impl: str = "ok", **kw) -> StageExecution:
    return StageExecution(
        ref_id=ref,
        name=ref,
        tasks=[TaskExecution.create(f"{ref}-task", impl, stage_start=True, stage_end=True)],
        **kw,
    )


def env():
    tmp = tempfile.mkdtemp(prefix="tri3-c2-")
    cs = f"sqlite:///{tmp}/wf.db"
    store = SqliteWorkflowStore(connection_string=cs, create_tables=True)
    queue = SqliteQueue(connection_string=cs, table_name="queue_messages", max_attempts=4)
    queue._create_table()
    reg = TaskRegistry()
    reg.register("ok", Ok)
    reg.register("softfail", SoftFail)
    return cs, store, queue, reg


def drain(processor: QueueProcessor, queue: SqliteQueue, budget: float = 20.0) -> list[str]:
    errors: list[str] = []
    start = time.monotonic()
    while time.monotonic() - start < budget and queue.size() > 0:
        try:
            if not processor.process_one():
                if queue.check_and_move_expired() == 0:
                    time.sleep(0.005)
        except Exception as e:  # noqa: BLE001  (the daemon loop logs + reschedules)
            errors.append(f"{type(e).__name__}: {e}")
    return errors


def report(label: str, store, queue, wf, errors) -> bool:
    result = store.retrieve(wf.id)
    stages = {s.ref_id: s.status.name for s in result.stages}
    dlq = queue.list_dlq()
    print(f"--- scenario {label}")
    print(f"    workflow={result.status.name}  stages={stages}")
    print(f"    queue size={queue.size()}  dlq={[d['message_type'] for d in dlq]}  handler exceptions={len(errors)}")
    for e in sorted(set(errors)):
        print(f"    handler raised: {e[:160]}")
    stuck = queue.size() == 0 and result.status.name not in FINAL
    print("    => STUCK: queue drained, workflow not final" if stuck else "    => workflow reached a final status")
    return stuck


def finish(store) -> None:
    store.close()
    reset_event_recorder()
    reset_event_bus()
    SingletonMeta.reset(ConnectionManager)


def processor_for(queue, store, reg) -> QueueProcessor:
    return QueueProcessor(
        queue,
        config=QueueProcessorConfig(retry_delay=timedelta(milliseconds=1)),
        store=store,
        task_registry=reg,
    )


def scenario_a() -> bool:
    cs, store, queue, reg = env()
    wf = Workflow.create(
        application="tri3",
        name="A",
        stages=[
            st("a", split_type=SplitType.OR, split_conditions={"b": True, "c": "x > 1"}),
            st("b", requisite_stage_ref_ids={"a"}),
            st("c", requisite_stage_ref_ids={"a"}),
        ],
    )
    store.store(wf)
    p = processor_for(queue, store, reg)
    Orchestrator(queue).start(wf)
    errs = drain(p, queue)
    stuck = report("A (non-string OR-split condition)", store, queue, wf, errs)
    finish(store)
    return stuck


def scenario_b() -> bool:
    cs, store, queue, reg = env()
    configure_event_sourcing(SqliteEventStore(cs, create_tables=True))
    wf = Workflow.create(
        application="tri3",
        name="B",
        stages=[
            # user data: the workflow forwards an error text under the key "exception"
            st("notify", impl="softfail", context={"exception": "ValueError: upstream system said boom"}),
            st("next", requisite_stage_ref_ids={"notify"}),
        ],
    )
    store.store(wf)
    p = processor_for(queue, store, reg)
    Orchestrator(queue).start(wf)
    errs = drain(p, queue)
    stuck = report("B (event sourcing + FAILED_CONTINUE stage + string context['exception'])", store, queue, wf, errs)
    finish(store)
    return stuck


def scenario_fault(label: str, fail_times: int | None) -> bool:
    cs, store, queue, reg = env()
    wf = Workflow.create(
        application="tri3",
        name=label,
        stages=[st("a"), st("b", requisite_stage_ref_ids={"a"})],
    )
    store.store(wf)
    p = processor_for(queue, store, reg)
    real = store.get_downstream_stages
    calls = {"n": 0}

    def flaky(execution_id, ref_id):
        if ref_id == "a":
            calls["n"] += 1
            if fail_times is None or calls["n"] <= fail_times:
                raise RuntimeError("injected non-transient store failure")
        return real(execution_id, ref_id)

    store.get_downstream_stages = flaky  # type: ignore[method-assign]
    Orchestrator(queue).start(wf)
    errs = drain(p, queue)
    stuck = report(label, store, queue, wf, errs)
    finish(store)
    return stuck


def main() -> int:
    print(f"stabilize from {os.path.dirname(stabilize.__file__)}")
    a = scenario_a()
    b = scenario_b()
    c = scenario_fault("C (get_downstream_stages fails every time, non-transient)", None)
    scenario_fault("D (get_downstream_stages fails once, informational)", 1)
    return 1 if (a or b or c) else 0


if __name__ == "__main__":
    sys.exit(main())
