"""A JumpToStage that is handled after its source stage was canceled overwrites the CANCELED status (C06).

a -> b -> c; a's task returns TaskResult.jump_to("c") (forward jump). RunTask(a) commits {JumpToStage, CompleteTask(REDIRECT)}.
A cancel is accepted right then; the delivery order lets CancelStage(a) (and the other CancelStages) be handled before the
JumpToStage. The jump handler has no guard on its source: reset_stage_to_succeeded assigns SUCCEEDED unconditionally, the
target c is re-armed CANCELED -> NOT_STARTED (and started again inside a canceled workflow).

Every committed stage status change is recorded by a trigger and checked against the published transition table.
exit 1 = an illegal durable transition out of a completed status, exit 0 = none.
"""
import os
import sys

sys.path.insert(0, os.path.dirname(os.path.abspath(__file__)))
from tri5_rig import Rig  # noqa: E402

from stabilize.models.stage import StageExecution  # noqa: E402
from stabilize.models.status import WorkflowStatus, can_transition  # noqa: E402
from stabilize.models.task import TaskExecution  # noqa: E402
from stabilize.queue.messages import CancelWorkflow, JumpToStage  # noqa: E402
from stabilize.tasks.interface import Task  # noqa: E402
from stabilize.tasks.result import TaskResult  # noqa: E402


class Jump(Task):
    def execute(self, stage):
        return TaskResult.jump_to("c")


class Ok(Task):
    def execute(self, stage):
        return TaskResult.success()


def st(ref, impl, **kw):
    return StageExecution(ref_id=ref, type="demo", name=ref, tasks=[TaskExecution.create(name=ref + "-t", implementing_class=impl, stage_start=True, stage_end=True)], **kw)


def main() -> int:
    rig = Rig([st("a", "jump"), st("b", "ok", requisite_stage_ref_ids={"a"}), st("c", "ok", requisite_stage_ref_ids={"b"})], {"jump": Jump, "ok": Ok})
    conn = rig.store._get_connection()
    conn.execute("CREATE TABLE audit (stage_id TEXT, old TEXT, new TEXT)")
    conn.execute("CREATE TRIGGER audit_t AFTER UPDATE OF status ON stage_executions WHEN old.status <> new.status BEGIN INSERT INTO audit VALUES (new.id, old.status, new.status); END")
    conn.commit()
    rig.drain_fifo(until=lambda: any(isinstance(m, JumpToStage) for m in rig.pending()))
    rig.q.push(CancelWorkflow(execution_type="PIPELINE", execution_id=rig.wf.id, user="demo", reason="demo"))
    rig.deliver([m for m in rig.pending() if isinstance(m, CancelWorkflow)][0], "   <- cancel accepted; JumpToStage(a) still queued")
    rig.drain_fifo(hold=lambda m: isinstance(m, JumpToStage))          # CancelStage(a|b|c), CompleteWorkflow, CompleteTask first
    rig.drain_fifo()                                                   # now the jump
    print("\n".join("  " + t for t in rig.compact_trace()))
    bad = []
    for sid, old, new in conn.execute("SELECT stage_id, old, new FROM audit").fetchall():
        o, n = WorkflowStatus[old], WorkflowStatus[new]
        legal = can_transition(o, n)
        print(f"  stage {rig.ref.get(sid, sid)}: {old} -> {new}{'' if legal else '   <-- ILLEGAL'}")
        if not legal and o.is_complete:
            bad.append((rig.ref.get(sid, sid), old, new))
    print(rig.snapshot()["workflow"], rig.snapshot()["stages"])
    if bad:
        print("DEFECT REPRODUCED: a completed status was overwritten:", bad)
        return 1
    print("ok: no completed status changed")
    return 0


if __name__ == "__main__":
    sys.exit(main())
