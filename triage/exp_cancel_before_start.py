"""A workflow whose cancel flag was set before it started (store.cancel(): monitor UI / purge of waiting executions - no
CancelWorkflow message) is never finalised (C17 / C05): StartWorkflow sees is_canceled, calls _terminate() - a stub - and
consumes the message. The workflow stays NOT_STARTED with is_canceled set, queue empty, for good.

exit 1 = workflow not final, exit 0 = workflow ended CANCELED.
"""
import logging
import os
import sys
import tempfile

REPO_ROOT = os.environ.get("REPO_ROOT", "/repo")
sys.path.insert(0, os.path.join(REPO_ROOT, "src"))

from stabilize import Orchestrator, QueueProcessor, SqliteQueue, SqliteWorkflowStore, StageExecution, Task, TaskExecution, TaskRegistry, TaskResult, Workflow  # noqa: E402

logging.disable(logging.CRITICAL)


class Ok(Task):
    def execute(self, stage):
        return TaskResult.success()


def main() -> int:
    d = tempfile.mkdtemp(prefix="cancel-before-")
    url = f"sqlite:///{d}/t.db"
    store = SqliteWorkflowStore(url, create_tables=True)
    q = SqliteQueue(url)
    q._create_table()
    reg = TaskRegistry()
    reg.register("ok", Ok)
    wf = Workflow.create(application="a", name="n", stages=[StageExecution(ref_id="A", type="t", name="A", context={}, tasks=[TaskExecution.create("t", "ok", stage_start=True, stage_end=True)])])
    store.store(wf)
    store.cancel(wf.id, "operator", "changed my mind")          # flag only, as the monitor / the purge do
    Orchestrator(q).start(wf)
    QueueProcessor(q, store=store, task_registry=reg).process_all(timeout=10.0)
    r = store.retrieve(wf.id)
    print("workflow", r.status.name, "is_canceled", r.is_canceled, {s.ref_id: s.status.name for s in r.stages}, "queue size", q.size())
    if not r.status.is_complete:
        print("DEFECT REPRODUCED: canceled before start, never finalised")
        return 1
    print("ok: ended", r.status.name)
    return 0


if __name__ == "__main__":
    sys.exit(main())
