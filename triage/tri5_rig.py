"""Shared hand-delivery rig for the tri5 demos.

Conventions: REPO_ROOT env var (default /repo), REPO_ROOT/src at sys.path[0],
temp SQLite file, real handlers.  Messages are delivered ONE AT A TIME in an
order chosen by the script: every row in the queue table counts as pending
(deliver_at / delays are ignored), delivery is
``QueueProcessor._handle_message(m)`` followed by ``queue.ack(m)``.
"""
from __future__ import annotations

import logging
import os
import sys
import tempfile

REPO_ROOT = os.environ.get("REPO_ROOT", "/repo")
sys.path.insert(0, os.path.join(REPO_ROOT, "src"))

from stabilize.models.status import WorkflowStatus  # noqa: E402
from stabilize.models.workflow import Workflow  # noqa: E402
from stabilize.orchestrator import Orchestrator  # noqa: E402
from stabilize.persistence.sqlite import SqliteWorkflowStore  # noqa: E402
from stabilize.queue.messages import CompleteTask, CompleteWorkflow, StartStage, get_message_type_name  # noqa: E402
from stabilize.queue.processor import QueueProcessor  # noqa: E402
from stabilize.queue.sqlite import SqliteQueue  # noqa: E402
from stabilize.queue.sqlite.serialization import deserialize_message  # noqa: E402
from stabilize.tasks.registry import TaskRegistry  # noqa: E402

logging.disable(logging.CRITICAL)


class Rig:
    def __init__(self, stages, tasks: dict, handler_config=None) -> None:
        d = tempfile.mkdtemp(prefix="tri5_")
        conn = f"sqlite:///{d}/wf.db"
        self.store = SqliteWorkflowStore(conn, create_tables=True)
        self.q = SqliteQueue(conn)
        self.q._create_table()
        reg = TaskRegistry()
        for name, cls in tasks.items():
            reg.register(name, cls)
        self.proc = QueueProcessor(self.q, store=self.store, task_registry=reg, handler_config=handler_config)
        self.wf = Workflow.create(application="tri5", name="wf", stages=stages)
        self.store.store(self.wf)
        Orchestrator(self.q).start(self.wf)
        self.ref = {s.id: s.ref_id for s in self.wf.stages}
        self.trace: list[str] = []
        self.errors: list[str] = []

    def pending(self) -> list:
        conn = self.q._get_connection()
        rows = conn.execute(
            f"SELECT id, message_type, payload, attempts FROM {self.q.table_name} ORDER BY id"
        ).fetchall()
        out = []
        for r in rows:
            m = deserialize_message(r["message_type"], r["payload"])
            m.message_id = str(r["id"])
            m.attempts = r["attempts"] + 1
            out.append(m)
        return out

    def is_for(self, m, cls, ref: str | None = None) -> bool:
        return isinstance(m, cls) and (ref is None or self.ref.get(getattr(m, "stage_id", None)) == ref)

    def label(self, m) -> str:
        s = get_message_type_name(m)
        sid = getattr(m, "stage_id", None)
        if sid:
            s += f"({self.ref.get(sid, '?')}"
            if isinstance(m, CompleteTask):
                s += f",{m.status.name}"
            if isinstance(m, StartStage) and getattr(m, "retry_count", 0):
                s += f",retry_count={m.retry_count}"
            s += ")"
        elif isinstance(m, CompleteWorkflow) and getattr(m, "retry_count", 0):
            s += f"(retry_count={m.retry_count})"
        return f"#{m.message_id}:{s}"

    def deliver(self, m, note: str = "") -> None:
        self.trace.append(self.label(m) + note)
        self.proc._handle_message(m)
        self.q.ack(m)

    def drain_fifo(self, hold=lambda m: False, until=lambda: False, limit: int = 500) -> None:
        for _ in range(limit):
            if until():
                return
            todo = [m for m in self.pending() if not hold(m)]
            if not todo:
                return
            self.deliver(todo[0])
        raise RuntimeError("did not quiesce within %d deliveries" % limit)

    def compact_trace(self) -> list[str]:
        """Trace with runs of the same re-queued message kind collapsed."""
        import re

        out: list[str] = []
        run: list[str] = []

        def kind(line: str) -> str:
            return re.sub(r"^#\d+:|,?retry_count=\d+", "", line).replace("()", "")

        def flush() -> None:
            if len(run) > 3:
                out.extend([run[0], f"   ... {len(run) - 2} more {kind(run[0])} (re-queued, retry_count+1 each) ...", run[-1]])
            else:
                out.extend(run)
            run.clear()

        for line in self.trace:
            if run and kind(line) != kind(run[0]):
                flush()
            run.append(line)
        flush()
        return out

    def stage(self, ref: str):
        return self.store.retrieve(self.wf.id).stage_by_ref_id(ref)

    def task_status(self, ref: str, idx: int = 0) -> WorkflowStatus:
        return self.stage(ref).tasks[idx].status

    def snapshot(self) -> dict:
        wf = self.store.retrieve(self.wf.id)
        return {
            "workflow": wf.status.name,
            "stages": {s.ref_id: s.status.name for s in wf.stages},
            "tasks": {s.ref_id: [t.status.name for t in s.tasks] for s in wf.stages},
            "outputs": {s.ref_id: dict(s.outputs) for s in wf.stages},
            "queue_left": [self.label(m) for m in self.pending()],
        }
