#!/usr/bin/env python
"""Candidate C: the resume RunTask of a suspended task is dropped as "already executing".

RunTaskHandler keeps a process-wide dict `_executing_tasks` (task id -> start time).  A RunTask
for a task id in the dict is ignored ("duplicate RunTask - already executing") and the handler
returns normally, so QueueProcessor marks the message processed and acks it.  The entry is
removed only in a `finally` AFTER the task's result has been committed.

Workflow:  root -> handler (WaitTask: suspends until a signal).  A persistent signal is buffered
before handler suspends.  When WaitTask returns SUSPENDED, `_handle_suspended` consumes the
buffered signal and commits "stage RUNNING + push resume RunTask" in one transaction.

Interleaving (two worker threads of ONE process, one QueueProcessor):
  worker-1 commits the suspend/resume transaction, and is descheduled before it reaches the
  `finally` (modelled by a wrapper around repository.transaction that, right after that commit,
  lets worker-2 run `processor.process_one()` on a real second thread and waits for it).
  worker-2 polls the resume RunTask -> task id still in `_executing_tasks` -> dropped -> acked.

Expected: one resume per signal: handler re-runs WaitTask, sees the signal, workflow SUCCEEDED.
Defect:   resume lost: handler RUNNING / task RUNNING, signal consumed, queue empty, workflow RUNNING.

exit 1 = defect reproduced, 0 = not reproduced.
"""

from __future__ import annotations

import os
import sys
import tempfile
import threading
from contextlib import contextmanager

REPO_ROOT = os.environ.get("REPO_ROOT", "/repo")
sys.path.insert(0, os.path.join(REPO_ROOT, "src"))

import logging  # noqa: E402

logging.disable(logging.CRITICAL)

import stabilize  # noqa: E402
from stabilize import (  # noqa: E402
    Orchestrator,
    QueueProcessor,
    RunTaskHandler,
    SqliteQueue,
    SqliteWorkflowStore,
    StageExecution,
    Task,
    TaskRegistry,
    TaskResult,
)
from stabilize.models.status import WorkflowStatus  # noqa: E402
from stabilize.models.task import TaskExecution  # noqa: E402
from stabilize.models.workflow import Workflow  # noqa: E402
from stabilize.queue.messages import RunTask, SignalStage  # noqa: E402

EXECUTIONS: list[str] = []


class Ok(Task):
    def execute(self, stage: StageExecution) -> TaskResult:
        return TaskResult.success()


class WaitTask(Task):
    def execute(self, stage: StageExecution) -> TaskResult:
        data = stage.context.get("_signal_data")
        EXECUTIONS.append(f"{threading.current_thread().name}:signal={data}")
        if data is not None:
            return TaskResult.success(outputs={"got": data})
        return TaskResult.suspend()


def run(interleave: bool) -> bool:
    EXECUTIONS.clear()
    RunTaskHandler._executing_tasks.clear()
    tmp = tempfile.mkdtemp(prefix="tri4-c-")
    db = os.path.join(tmp, "wf.db")
    store = SqliteWorkflowStore(connection_string=f"sqlite:///{db}", create_tables=True)
    queue = SqliteQueue(connection_string=f"sqlite:///{db}", table_name="queue_messages")
    queue._create_table()
    reg = TaskRegistry()
    reg.register("ok", Ok)
    reg.register("wait", WaitTask)
    proc = QueueProcessor(queue, store=store, task_registry=reg)
    wf = Workflow.create(
        application="tri4",
        name="resume-dropped",
        stages=[
            StageExecution(
                ref_id="root",
                name="root",
                context={},
                tasks=[TaskExecution.create("root", "ok", stage_start=True, stage_end=True)],
            ),
            StageExecution(
                ref_id="handler",
                name="handler",
                requisite_stage_ref_ids={"root"},
                context={},
                tasks=[TaskExecution.create("handler", "wait", stage_start=True, stage_end=True)],
            ),
        ],
    )
    store.store(wf)
    Orchestrator(queue).start(wf)
    handler_id = store.retrieve(wf.id).stage_by_ref_id("handler").id
    queue.push(
        SignalStage(
            execution_type=wf.type.value,
            execution_id=wf.id,
            stage_id=handler_id,
            signal_name="go",
            signal_data={"who": "alice"},
            persistent=True,
        )
    )

    worker1 = threading.current_thread()
    state = {"fired": False}
    orig_transaction = store.transaction

    def worker2() -> None:
        executing = dict(RunTaskHandler._executing_tasks)
        handled = proc.process_one()  # real poll + real RunTaskHandler + ack, on a second thread
        print(
            f"  [worker-2] worker-1 committed the resume but has not left its finally; "
            f"_executing_tasks has {len(executing)} entry; process_one() handled a message: {handled}"
        )

    @contextmanager
    def transaction(q=None):
        pushed_resume = {"v": False}
        with orig_transaction(q) as txn:
            orig_push = txn.push_message

            def push_message(message, delay=0):
                if isinstance(message, RunTask) and message.stage_id == handler_id:
                    pushed_resume["v"] = True
                return orig_push(message, delay)

            txn.push_message = push_message  # observe only
            yield txn
        # committed
        if (
            interleave
            and pushed_resume["v"]
            and not state["fired"]
            and threading.current_thread() is worker1
            and RunTaskHandler._executing_tasks  # i.e. we are inside RunTaskHandler's try block
        ):
            state["fired"] = True
            t = threading.Thread(target=worker2, name="worker-2")
            t.start()
            t.join(timeout=10)

    store.transaction = transaction  # type: ignore[method-assign]

    proc.process_all(timeout=15.0)

    store.transaction = orig_transaction  # type: ignore[method-assign]
    result = store.retrieve(wf.id)
    h = result.stage_by_ref_id("handler")
    print(
        f"  workflow={result.status.name} handler={h.status.name} handler.tasks={[t.status.name for t in h.tasks]} "
        f"queue_size={queue.size()} _signal_data={h.context.get('_signal_data')} "
        f"_buffered_signals={h.context.get('_buffered_signals')} executing_left={len(RunTaskHandler._executing_tasks)}"
    )
    print(f"  WaitTask executions: {EXECUTIONS}")
    wedged = result.status != WorkflowStatus.SUCCEEDED and queue.size() == 0
    store.close()
    return wedged


def main() -> int:
    print(f"stabilize from {os.path.dirname(stabilize.__file__)}")
    print("control (single worker):")
    control = run(interleave=False)
    print("race (second worker thread polls the resume RunTask before worker-1 leaves its finally):")
    wedged = run(interleave=True)
    if control:
        print("UNEXPECTED: control run wedged; demo construction is wrong")
        return 2
    if wedged:
        print("DEFECT REPRODUCED: the signal was consumed but its resume RunTask was dropped as a duplicate and acked;")
        print("  handler stays RUNNING with a RUNNING task, queue empty, workflow never finishes.")
        return 1
    print("not reproduced: the resume RunTask was executed")
    return 0


if __name__ == "__main__":
    sys.exit(main())
