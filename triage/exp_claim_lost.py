#!/usr/bin/env python
"""Candidate B: StartStage treats ANY ConcurrencyError on its claim as "someone else
claimed the stage" and drops the message - but a non-claiming writer can cause it.

Workflow:  root -> handler      (handler has ONE upstream, so exactly one StartStage arrives)
`handler` runs WaitTask: suspends until a signal; a buffered persistent signal resumes it.

race-1: a second worker's SignalStageHandler (real handler) buffers a persistent signal into
        the still NOT_STARTED `handler` row AFTER StartStageHandler read the stage
        (repository.retrieve_stage) and BEFORE its claim `store_stage(expected_phase=NOT_STARTED)`.
        The version bump makes the claim raise ConcurrencyError; the handler logs "duplicate
        StartStage (concurrent claim)" and returns; QueueProcessor acks the message.
race-2: same signal, but AFTER the claim committed and BEFORE the planned stage is stored
        (hook: repository.get_merged_ancestor_outputs, called by _plan_stage). The second
        store raises ConcurrencyError -> "Unexpected ConcurrencyError after claiming" -> return.

Expected: handler starts, suspends, consumes the buffered signal, workflow SUCCEEDED.
Defect:   handler never starts (race-1: NOT_STARTED, race-2: RUNNING without a started task),
          queue empty, workflow RUNNING forever.

exit 1 = defect reproduced, 0 = not reproduced.
"""

from __future__ import annotations

import os
import sys
import tempfile

REPO_ROOT = os.environ.get("REPO_ROOT", "/repo")
sys.path.insert(0, os.path.join(REPO_ROOT, "src"))

import logging  # noqa: E402

logging.disable(logging.CRITICAL)

import stabilize  # noqa: E402
from stabilize import (  # noqa: E402
    Orchestrator,
    QueueProcessor,
    SqliteQueue,
    SqliteWorkflowStore,
    StageExecution,
    Task,
    TaskRegistry,
    TaskResult,
)
from stabilize.models.status import WorkflowStatus  # noqa: E402
from stabilize.models.task import TaskExecution  # noqa: E402
from stabilize.models.workflow import Workflow  # noqa: E402
from stabilize.queue.messages import SignalStage, StartStage  # noqa: E402


class Ok(Task):
    def execute(self, stage: StageExecution) -> TaskResult:
        return TaskResult.success()


class WaitTask(Task):
    def execute(self, stage: StageExecution) -> TaskResult:
        data = stage.context.get("_signal_data")
        if data is not None:
            return TaskResult.success(outputs={"got": data})
        return TaskResult.suspend()


def run(mode: str) -> bool:
    """mode: control | race-1 | race-2.  Returns True when the workflow is wedged."""
    tmp = tempfile.mkdtemp(prefix="tri4-b-")
    db = os.path.join(tmp, "wf.db")
    store = SqliteWorkflowStore(connection_string=f"sqlite:///{db}", create_tables=True)
    queue = SqliteQueue(connection_string=f"sqlite:///{db}", table_name="queue_messages")
    queue._create_table()
    reg = TaskRegistry()
    reg.register("ok", Ok)
    reg.register("wait", WaitTask)
    proc = QueueProcessor(queue, store=store, task_registry=reg)
    wf = Workflow.create(
        application="tri4",
        name="claim-lost",
        stages=[
            StageExecution(
                ref_id="root",
                name="root",
                context={},
                tasks=[TaskExecution.create("root", "ok", stage_start=True, stage_end=True)],
            ),
            StageExecution(
                ref_id="handler",
                name="handler",
                requisite_stage_ref_ids={"root"},
                context={},
                tasks=[TaskExecution.create("handler", "wait", stage_start=True, stage_end=True)],
            ),
        ],
    )
    store.store(wf)
    Orchestrator(queue).start(wf)
    handler_id = store.retrieve(wf.id).stage_by_ref_id("handler").id
    sig = SignalStage(
        execution_type=wf.type.value,
        execution_id=wf.id,
        stage_id=handler_id,
        signal_name="go",
        signal_data={"who": "alice"},
        persistent=True,
    )
    signal_handler = proc._handlers[SignalStage]
    start_handler = proc._handlers[StartStage]

    state = {"in_start": False, "fired": False}

    def second_worker(where: str) -> None:
        state["fired"] = True
        before = store.retrieve_stage(handler_id)
        signal_handler.handle(sig)  # real SignalStageHandler, as run by another worker
        after = store.retrieve_stage(handler_id)
        print(
            f"  [worker-2] {where}: handler {before.status.name} v{before.version} -> "
            f"{after.status.name} v{after.version} _buffered_signals={after.context.get('_buffered_signals')}"
        )

    orig_handle = start_handler.handle
    orig_retrieve_stage = store.retrieve_stage
    orig_ancestor = store.get_merged_ancestor_outputs

    def handle(message):  # only marks "StartStage(handler) is being handled"
        state["in_start"] = message.stage_id == handler_id
        try:
            orig_handle(message)
        finally:
            state["in_start"] = False

    def retrieve_stage(stage_id):
        stage = orig_retrieve_stage(stage_id)
        if mode == "race-1" and state["in_start"] and not state["fired"] and stage_id == handler_id:
            second_worker("StartStage has read handler, claim not yet written")
        return stage

    def get_merged_ancestor_outputs(execution_id, ref_id):
        if mode == "race-2" and state["in_start"] and not state["fired"] and ref_id == "handler":
            second_worker("StartStage has claimed handler, planned stage not yet stored")
        return orig_ancestor(execution_id, ref_id)

    start_handler.handle = handle  # type: ignore[method-assign]
    store.retrieve_stage = retrieve_stage  # type: ignore[method-assign]
    store.get_merged_ancestor_outputs = get_merged_ancestor_outputs  # type: ignore[method-assign]

    if mode == "control":
        queue.push(sig)  # buffered before StartStage(handler) ever runs

    proc.process_all(timeout=15.0)

    result = store.retrieve(wf.id)
    h = result.stage_by_ref_id("handler")
    print(
        f"  workflow={result.status.name} root={result.stage_by_ref_id('root').status.name} "
        f"handler={h.status.name} handler.tasks={[t.status.name for t in h.tasks]} queue_size={queue.size()} "
        f"_buffered_signals={h.context.get('_buffered_signals')}"
    )
    wedged = result.status != WorkflowStatus.SUCCEEDED and queue.size() == 0
    store.close()
    return wedged


def main() -> int:
    print(f"stabilize from {os.path.dirname(stabilize.__file__)}")
    out = {}
    for mode in ("control", "race-1", "race-2"):
        print(f"{mode}:")
        out[mode] = run(mode)
    if out["control"]:
        print("UNEXPECTED: control run wedged; demo construction is wrong")
        return 2
    rc = 0
    if out["race-1"]:
        print("DEFECT REPRODUCED (race-1): StartStage consumed, nobody claimed handler: NOT_STARTED, queue empty, workflow RUNNING")
        rc = 1
    if out["race-2"]:
        print("DEFECT REPRODUCED (race-2): claim committed but plan/start lost: handler RUNNING with no started task, queue empty")
        rc = 1
    if rc == 0:
        print("not reproduced: handler started and consumed the signal in every interleaving")
    return rc


if __name__ == "__main__":
    sys.exit(main())
