"""Replay vs store for a parent stage whose synthetic before-stage fails (C12).

Workflow: parent (one task) with a STAGE_BEFORE child `setup` whose task returns TaskResult.terminal(...).
Regular run, FIFO, no crash: setup ends TERMINAL -> ContinueParentStage marks the parent TERMINAL and pushes
CompleteStage(parent); CompleteStage finds the parent already halted and only pushes CompleteWorkflow.
No stage.failed event is recorded for the parent: the store says TERMINAL, the replay says RUNNING.

exit 1 = divergence reproduced, exit 0 = store and replay agree.
"""
import logging
import os
import sys
import tempfile

REPO_ROOT = os.environ.get("REPO_ROOT", "/repo")
sys.path.insert(0, os.path.join(REPO_ROOT, "src"))

from stabilize import Orchestrator  # noqa: E402
from stabilize.events import SqliteEventStore, configure_event_sourcing, reset_event_bus, reset_event_recorder  # noqa: E402
from stabilize.events.replay import EventReplayer  # noqa: E402
from stabilize.models.stage import StageExecution, SyntheticStageOwner  # noqa: E402
from stabilize.models.status import WorkflowStatus  # noqa: E402
from stabilize.models.task import TaskExecution  # noqa: E402
from stabilize.models.workflow import Workflow  # noqa: E402
from stabilize.persistence.sqlite import SqliteWorkflowStore  # noqa: E402
from stabilize.queue import SqliteQueue  # noqa: E402
from stabilize.queue.processor import QueueProcessor  # noqa: E402
from stabilize.tasks.interface import Task  # noqa: E402
from stabilize.tasks.registry import TaskRegistry  # noqa: E402
from stabilize.tasks.result import TaskResult  # noqa: E402

logging.disable(logging.CRITICAL)
VARIANT = os.environ.get("VARIANT", "before")      # before | after


class Ok(Task):
    def execute(self, stage):
        return TaskResult.success()


class Boom(Task):
    def execute(self, stage):
        return TaskResult.terminal("boom")


def st(ref, impl, **kw):
    return StageExecution(ref_id=ref, type="demo", name=ref, tasks=[TaskExecution.create(name=ref + "-t", implementing_class=impl, stage_start=True, stage_end=True)], **kw)


def main() -> int:
    tmp = tempfile.mkdtemp(prefix="replay-parent-")
    reset_event_bus()
    reset_event_recorder()
    url = f"sqlite:///{tmp}/demo.db"
    store = SqliteWorkflowStore(url, create_tables=True)
    queue = SqliteQueue(url)
    queue._create_table()
    es = SqliteEventStore(url, create_tables=True)
    configure_event_sourcing(es)
    reg = TaskRegistry()
    reg.register("ok", Ok)
    reg.register("boom", Boom)
    parent = st("parent", "ok")
    child = st("setup", "boom", synthetic_stage_owner=SyntheticStageOwner.STAGE_BEFORE if VARIANT == "before" else SyntheticStageOwner.STAGE_AFTER)
    child.parent_stage_id = parent.id
    wf = Workflow.create(application="demo", name="replay-parent", stages=[parent, child])
    store.store(wf)
    Orchestrator(queue).start(wf)
    QueueProcessor(queue, store=store, task_registry=reg).process_all(timeout=20.0)
    live = store.retrieve(wf.id)
    rebuilt = EventReplayer(es).rebuild_workflow_state(wf.id)
    for e in es.get_events_for_workflow(wf.id):
        print(f"  {e.sequence:3d} {e.event_type.value:18s} {e.data.get('name') or ''} {e.data.get('status') or ''}")
    diffs = []
    if rebuilt["status"] != live.status.name:
        diffs.append(f"workflow: store={live.status.name} replay={rebuilt['status']}")
    for s in live.stages:
        r = rebuilt["stages"].get(s.id, {}).get("status")
        if not (s.status == WorkflowStatus.NOT_STARTED and r is None) and r != s.status.name:
            diffs.append(f"stage {s.ref_id}: store={s.status.name} replay={r}")
        for t in s.tasks:
            r = rebuilt["tasks"].get(t.id, {}).get("status")
            if not (t.status == WorkflowStatus.NOT_STARTED and r is None) and r != t.status.name:
                diffs.append(f"task {t.name}: store={t.status.name} replay={r}")
    print("store :", live.status.name, [(s.ref_id, s.status.name) for s in live.stages])
    if diffs:
        print("DIVERGENCE REPRODUCED:\n  " + "\n  ".join(diffs))
        return 1
    print("ok: replay reproduces the stored state")
    return 0


if __name__ == "__main__":
    sys.exit(main())
