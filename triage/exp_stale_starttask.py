#!/usr/bin/env python
"""Candidate 2: a stale first-iteration StartTask starts a task whose stage was re-armed.

Workflow   a -> (b, c).  b's task returns TaskResult.jump_to("a") on its first execution.
c is an ordinary sibling; the backward jump b->a re-arms a, b AND c (c's only
prerequisite is inside the reset scope): stage NOT_STARTED, tasks NOT_STARTED.

A linear a -> b loop cannot have a stale StartTask (each StartTask must be consumed
before the chain can advance, and a redelivery of the same row is caught by
processed_messages), hence the sibling branch: StartStage(c) of iteration 1 has been
handled (c RUNNING, StartTask(c.t) pending) when b's jump happens.

FIFO control:   c runs in iteration 1, is re-armed by the jump, runs again in iteration 2
                after a's second run; every body runs twice; SUCCEEDED.
Chosen order:   hold StartTask(c.t) of iteration 1; deliver StartTask(b), RunTask(b),
                JumpToStage (c is re-armed: stage NOT_STARTED, task NOT_STARTED); NOW
                deliver the held StartTask(c.t), then RunTask(c.t)/CompleteTask/CompleteStage
                that it spawns, then the rest in order.

StartTaskHandler checks only task.status == NOT_STARTED and RunTaskHandler only
task.status == RUNNING; neither looks at the stage.  The body records what the store
says about stage c and stage a at the moment it executes.

Exit 1 when c's body ran while its stage was NOT_STARTED / the outcome differs from FIFO.
"""
from __future__ import annotations

import os
import sys

sys.path.insert(0, os.path.dirname(os.path.abspath(__file__)))
from tri5_rig import Rig  # noqa: E402

from stabilize import TaskResult  # noqa: E402
from stabilize.models.stage import StageExecution  # noqa: E402
from stabilize.models.status import WorkflowStatus  # noqa: E402
from stabilize.models.task import TaskExecution  # noqa: E402
from stabilize.queue.messages import CompleteStage, CompleteTask, JumpToStage, RunTask, StartTask  # noqa: E402
from stabilize.tasks.interface import Task  # noqa: E402

RUNS: dict[str, int] = {}
C_OBSERVED: list[dict] = []
RIG: list[Rig] = []


class ATask(Task):
    def execute(self, stage: StageExecution) -> TaskResult:
        RUNS["a"] = RUNS.get("a", 0) + 1
        return TaskResult.success(outputs={"a_run": RUNS["a"]})


class BTask(Task):
    def execute(self, stage: StageExecution) -> TaskResult:
        RUNS["b"] = RUNS.get("b", 0) + 1
        if RUNS["b"] == 1:
            return TaskResult.jump_to("a")
        return TaskResult.success(outputs={"b_run": RUNS["b"]})


class CTask(Task):
    def execute(self, stage: StageExecution) -> TaskResult:
        RUNS["c"] = RUNS.get("c", 0) + 1
        rig = RIG[-1]
        C_OBSERVED.append(
            {
                "c_run": RUNS["c"],
                "stage_c": rig.stage("c").status.name,
                "stage_a": rig.stage("a").status.name,
                "a_runs_so_far": RUNS.get("a", 0),
                "result_already_recorded": "c_saw_a_run" in rig.stage("c").outputs,
            }
        )
        return TaskResult.success(outputs={"c_saw_a_run": stage.context.get("a_run")})


TASKS = {"a_task": ATask, "b_task": BTask, "c_task": CTask}


def t(impl: str) -> list[TaskExecution]:
    return [TaskExecution.create(name=impl, implementing_class=impl, stage_start=True, stage_end=True)]


def make() -> Rig:
    RUNS.clear()
    C_OBSERVED.clear()
    rig = Rig(
        [
            StageExecution(ref_id="a", name="a", tasks=t("a_task")),
            StageExecution(ref_id="b", name="b", requisite_stage_ref_ids={"a"}, tasks=t("b_task")),
            StageExecution(ref_id="c", name="c", requisite_stage_ref_ids={"a"}, tasks=t("c_task")),
        ],
        TASKS,
    )
    RIG.append(rig)
    return rig


def outcome(rig: Rig) -> dict:
    o = rig.snapshot()
    o["body_runs"] = dict(sorted(RUNS.items()))
    o["c_executions"] = [dict(x) for x in C_OBSERVED]
    return o


def scenario_b() -> tuple[dict, list[str]]:
    """Stale RunTask: hold iteration 1's RunTask(c.t); deliver the jump and iteration 2 up to
    StartTask(c.t) #2 (c.t RUNNING again, RunTask(c.t) #2 pending); deliver the stale RunTask #1
    (body runs, result recorded, CompleteTask pushed), then RunTask #2 (task is still RUNNING until
    a CompleteTask is handled -> body runs AGAIN after its result was recorded), then the rest."""
    rig = make()
    rig.drain_fifo(
        until=lambda: any(rig.is_for(m, RunTask, "b") for m in rig.pending())
        and any(rig.is_for(m, RunTask, "c") for m in rig.pending())
    )
    held = next(m for m in rig.pending() if rig.is_for(m, RunTask, "c"))
    rig.trace.append(f"   -- holding {rig.label(held)} (iteration 1)")
    rig.drain_fifo(
        hold=lambda m: m.message_id == held.message_id,
        until=lambda: RUNS.get("a", 0) == 2
        and rig.task_status("c") == WorkflowStatus.RUNNING
        and sum(1 for m in rig.pending() if rig.is_for(m, RunTask, "c")) == 2,
    )
    rig.deliver(held, "   <== STALE (iteration 1), c.t is RUNNING again in iteration 2")
    second = next(m for m in rig.pending() if rig.is_for(m, RunTask, "c"))
    rig.deliver(second, "   (iteration 2's own RunTask; the result of c.t is already recorded)")
    rig.drain_fifo()
    return outcome(rig), rig.compact_trace()


def main() -> int:
    rig = make()
    rig.drain_fifo()
    fifo = outcome(rig)

    rig = make()
    # 1. in order until both StartStage(b) and StartStage(c) of iteration 1 were handled:
    #    pending = [StartTask(b.t), StartTask(c.t)]
    rig.drain_fifo(
        until=lambda: any(rig.is_for(m, StartTask, "b") for m in rig.pending())
        and any(rig.is_for(m, StartTask, "c") for m in rig.pending())
    )
    held = next(m for m in rig.pending() if rig.is_for(m, StartTask, "c"))
    rig.trace.append(f"   -- holding {rig.label(held)} (iteration 1); stage c is {rig.stage('c').status.name}")
    # 2. b's branch: StartTask(b), RunTask(b) -> [JumpToStage, CompleteTask(b,REDIRECT)], JumpToStage
    rig.drain_fifo(
        hold=lambda m: m.message_id == held.message_id or rig.is_for(m, CompleteTask, "b"),
        until=lambda: RUNS.get("b", 0) == 1 and not any(isinstance(m, JumpToStage) for m in rig.pending()),
    )
    c = rig.stage("c")
    rig.trace.append(
        f"   -- after the jump: stage c {c.status.name}, c.t {c.tasks[0].status.name}, "
        f"stage a {rig.stage('a').status.name} (StartStage(a) #2 still pending)"
    )
    assert c.status == WorkflowStatus.NOT_STARTED and c.tasks[0].status == WorkflowStatus.NOT_STARTED
    # 3. the stale StartTask(c.t) and what it spawns, ahead of iteration 2
    rig.deliver(held, "   <== STALE (iteration 1), stage c is NOT_STARTED")
    rig.trace.append(f"   -- c.t is now {rig.task_status('c').name}, stage c {rig.stage('c').status.name}")
    for cls in (RunTask, CompleteTask, CompleteStage):
        nxt = [m for m in rig.pending() if rig.is_for(m, cls, "c")]
        if nxt:
            rig.deliver(nxt[0], "   (spawned by the stale StartTask)")
    c = rig.stage("c")
    rig.trace.append(f"   -- stage c {c.status.name}, c.t {c.tasks[0].status.name}, body runs {dict(RUNS)}")
    # 4. everything else in order (second iteration)
    rig.drain_fifo()
    stale = outcome(rig)
    trace_a = rig.compact_trace()
    stale_b, trace_b = scenario_b()

    print("=== Scenario A: stale StartTask(c.t)")
    print("chosen delivery order:")
    for line in trace_a:
        print("   ", line)
    print()
    print("FIFO  outcome:", fifo)
    print("STALE outcome:", stale)
    print()
    print("=== Scenario B: stale RunTask(c.t)")
    print("chosen delivery order:")
    for line in trace_b:
        print("   ", line)
    print()
    print("FIFO  outcome:", fifo)
    print("STALE outcome:", stale_b)
    rerun = [x for x in stale_b["c_executions"] if x["result_already_recorded"]]
    if rerun:
        print("c's body executed again although its result was already recorded (same iteration):", rerun)
    print()
    # Verdict.  The number of times c ran in iteration 1 may legitimately be 0 or 1 (the jump
    # pre-empts the sibling); what must hold: final statuses/outputs as under FIFO, c's body only
    # runs while stage c is RUNNING, at most once per iteration, never after its result is recorded.
    def final(o: dict) -> dict:
        return {k: o[k] for k in ("workflow", "stages", "tasks", "outputs", "queue_left")}

    def per_iteration(o: dict) -> dict:
        n: dict = {}
        for x in o["c_executions"]:
            n[x["a_runs_so_far"]] = n.get(x["a_runs_so_far"], 0) + 1
        return n

    print("final state equal to FIFO:  A:", final(stale) == final(fifo), " B:", final(stale_b) == final(fifo))
    print("c executions per iteration: FIFO", per_iteration(fifo), " A", per_iteration(stale), " B", per_iteration(stale_b))
    ran_unarmed = [x for x in stale["c_executions"] + stale_b["c_executions"] if x["stage_c"] != "RUNNING"]
    twice = [o for o in (stale, stale_b) if any(v > 1 for v in per_iteration(o).values())]
    if ran_unarmed:
        print("c's body executed while its stage was not RUNNING:", ran_unarmed)
    if ran_unarmed or rerun or twice or final(stale) != final(fifo) or final(stale_b) != final(fifo):
        print(
            "DEFECT reproduced: StartTask/RunTask only look at the task status, so iteration 1's StartTask(c.t) "
            "started (and RunTask executed) c's task while stage c was NOT_STARTED and its prerequisite a had not "
            "run its second iteration; iteration 2's StartStage(c) then finds c.t already SUCCEEDED, its "
            "StartTask is dropped and stage c stays RUNNING; CompleteWorkflow is re-queued max_stage_wait_retries "
            "times (240 x 15 s = 1 h in real time, delays ignored here) and then fails the workflow TERMINAL / "
            "cancels c, where FIFO delivery ends SUCCEEDED with c executed once per iteration.  Scenario B: "
            "iteration 1's RunTask(c.t) executes iteration 2's task, and iteration 2's own RunTask then "
            "executes it again after its result was recorded."
        )
        return 1
    print("OK: stale StartTask had no effect")
    return 0


if __name__ == "__main__":
    sys.exit(main())
