"""F11 (C01.R3): kill between the StartStage claim commit and the plan commit of a stage with PREDEFINED tasks.
Recovery sees RUNNING + start_time + NOT_STARTED tasks and pushes StartTask directly: the stage was never planned, so its
task runs without the merged upstream outputs. (With an uninterrupted run the task sees them.)"""
import os, sys, tempfile
sys.path.insert(0, os.environ.get("REPO_SRC", "/repo/src"))
from stabilize import *
from stabilize.models.workflow import Workflow
from stabilize.models.task import TaskExecution
from stabilize.handlers import StartStageHandler
from stabilize.recovery import WorkflowRecovery
from stabilize.persistence.connection import get_connection_manager

seen = {}
class Produce(Task):
    def execute(self, stage): return TaskResult.success(outputs={"token": "from-A"})
class Consume(Task):
    def execute(self, stage):
        seen["token"] = stage.context.get("token")
        return TaskResult.success()

def build(cs):
    store = SqliteWorkflowStore(cs, create_tables=True); q = SqliteQueue(cs); q._create_table()
    reg = TaskRegistry(); reg.register("produce", Produce); reg.register("consume", Consume)
    return store, q, reg

def workflow():
    return Workflow.create(application="a", name="n", stages=[
        StageExecution(ref_id="A", type="test", name="A", tasks=[TaskExecution.create(name="t", implementing_class="produce", stage_start=True, stage_end=True)]),
        StageExecution(ref_id="B", type="test", name="B", requisite_stage_ref_ids={"A"}, tasks=[TaskExecution.create(name="t", implementing_class="consume", stage_start=True, stage_end=True)])])

def run(crash: bool):
    seen.clear()
    d = tempfile.mkdtemp(); cs = f"sqlite:///{d}/t.db"
    store, q, reg = build(cs)
    wf = workflow(); store.store(wf); Orchestrator(q, store).start(wf)
    class Kill(BaseException): pass
    orig = StartStageHandler._plan_stage
    if crash:
        def boom(self, stage):
            if stage.ref_id == "B":
                raise Kill()
            return orig(self, stage)
        StartStageHandler._plan_stage = boom
    p = QueueProcessor(q, store=store, task_registry=reg)
    try:
        p.process_all(timeout=8)
    except Kill:
        pass
    finally:
        StartStageHandler._plan_stage = orig
    if crash:
        # "restart": fresh objects on the same file, locks lapse, one recovery sweep, drain
        store._get_connection().rollback()
        store._get_connection().execute("update queue_messages set locked_until = NULL"); store._get_connection().commit()
        store2, q2, reg2 = build(cs)
        WorkflowRecovery(store2, q2).recover_pending_workflows()
        QueueProcessor(q2, store=store2, task_registry=reg2).process_all(timeout=8)
        store = store2
    r = store.retrieve(wf.id)
    return r.status.name, {s.ref_id: s.status.name for s in r.stages}, dict(seen)

base = run(False)
crashed = run(True)
print("uninterrupted:", base)
print("kill between claim and plan of B + recovery:", crashed)
ok = base[2] == crashed[2] and base[0] == crashed[0]
print("SAME" if ok else "DIFFERENT: stage B ran without the upstream data it sees in an uninterrupted run")
sys.exit(0 if ok else 1)
