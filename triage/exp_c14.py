import os, sys, tempfile, time
os.environ["STABILIZE_TASK_BACKOFF_MIN_MS"]="1"; os.environ["STABILIZE_TASK_BACKOFF_MAX_MS"]="2"
sys.path.insert(0, "/repo/src")
from stabilize import *
from stabilize import TransientError
from stabilize.models.workflow import Workflow
from stabilize.models.task import TaskExecution
from stabilize.models.status import WorkflowStatus
N=[0]
seen=[]
class T(Task):
    def execute(self, stage):
        N[0]+=1
        raise TransientError("x", retry_after=0.001)
d=tempfile.mkdtemp()
cs=f"sqlite:///{d}/t.db"
store=SqliteWorkflowStore(cs, create_tables=True)
q=SqliteQueue(cs); q._create_table()
reg=TaskRegistry(); reg.register("t", T)
p=QueueProcessor(q, store=store, task_registry=reg)
# observe attempts
from stabilize.handlers.run_task import error as E
orig=E.handle_exception
wf=Workflow.create(application="a", name="n", stages=[StageExecution(ref_id="s", type="test", name="s", tasks=[TaskExecution.create(name="t", implementing_class="t", stage_start=True, stage_end=True)])])
store.store(wf); Orchestrator(q).start(wf)
t0=time.time()
while time.time()-t0<20 and N[0]<40:
    p.process_all(timeout=1.0)
print("executions", N[0], "status", store.retrieve(wf.id).status)
