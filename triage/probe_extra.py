#!/usr/bin/env python
"""Extra probes (same harness as exp_recovery_before.py).

A. Genuine crash recovery must still work with the fix: before-stage finished,
   the ContinueParentStage message is lost (queue wiped), one sweep must restart
   the parent's first task and the workflow must finish.
B. Analogous sweep hazards for synthetic children that recovery's _can_start()
   treats as "initial stage, can always start":
   B1. pre-declared STAGE_AFTER child while the parent's task has not run yet
   B2. pre-declared STAGE_BEFORE child of a parent that is itself still waiting
       for an upstream stage
   Sweep after every message; report whether a child task ran out of order.
"""

from __future__ import annotations

import os
import sys
import tempfile
import time

sys.path.insert(0, os.path.dirname(os.path.abspath(__file__)))
import exp_recovery_before as exp  # noqa: E402  (sets sys.path to REPO_ROOT/src)
from stabilize import (  # noqa: E402
    Orchestrator,
    QueueProcessor,
    SqliteQueue,
    SqliteWorkflowStore,
    StageExecution,
    Task,
    TaskRegistry,
    TaskResult,
)
from stabilize.models.stage import SyntheticStageOwner  # noqa: E402
from stabilize.models.task import TaskExecution  # noqa: E402
from stabilize.models.workflow import Workflow  # noqa: E402
from stabilize.persistence.connection import ConnectionManager, SingletonMeta  # noqa: E402
from stabilize.recovery import WorkflowRecovery  # noqa: E402

LOG: list[str] = []


class Named(Task):
    def execute(self, stage: StageExecution) -> TaskResult:
        LOG.append(stage.ref_id)
        return TaskResult.success()


def mk(ref, **kw):
    return StageExecution(
        ref_id=ref,
        name=ref,
        tasks=[TaskExecution.create(name=f"{ref}_task", implementing_class="named", stage_start=True, stage_end=True)],
        **kw,
    )


def harness(stages_fn):
    SingletonMeta.reset(ConnectionManager)
    tmp = tempfile.mkdtemp(prefix="exp-rec-x-")
    conn = f"sqlite:///{os.path.join(tmp, 'x.db')}"
    store = SqliteWorkflowStore(connection_string=conn, create_tables=True)
    queue = SqliteQueue(connection_string=conn, table_name="queue_messages")
    queue._create_table()
    reg = TaskRegistry()
    reg.register("named", Named)
    reg.register("setup", exp.SetupTask)
    reg.register("main", exp.MainTask)
    proc = QueueProcessor(queue, store=store, task_registry=reg)
    wf = stages_fn()
    store.store(wf)
    Orchestrator(queue).start(wf)
    return store, queue, proc, wf


def drain(queue, proc, hook=None, limit=300):
    n = 0
    while queue.size() > 0 and n < limit:
        if not proc.process_one():
            time.sleep(0.01)
            continue
        n += 1
        if hook:
            hook(n)
    return n


def sweep(store, queue):
    return WorkflowRecovery(store=store, queue=queue).recover_pending_workflows()


# ---------------------------------------------------------------- probe A
def probe_a() -> bool:
    exp.ORDER.clear()
    exp.RESOURCE.clear()
    exp.BEFORE_STATUS_SEEN.clear()
    store, queue, proc, wf = exp.build(os.path.join(tempfile.mkdtemp(prefix="exp-rec-a-"), "a.db"))
    # run until ContinueParentStage is the pending message, then "crash": wipe the queue
    n = 0
    while queue.size() > 0 and n < 100:
        if exp.queue_dump(queue) == ["ContinueParentStage"]:
            break
        proc.process_one()
        n += 1
    assert exp.queue_dump(queue) == ["ContinueParentStage"], exp.queue_dump(queue)
    queue.clear()
    res = [(r.status, r.message) for r in sweep(store, queue)]
    after = exp.queue_dump(queue)
    drain(queue, proc)
    final, parent, before = exp.snapshot(store, wf.id)
    ok = final.status.name == "SUCCEEDED" and exp.ORDER == ["before_task", "parent_task"]
    print(f"[A] lost ContinueParentStage -> sweep {res}; queued {after}; order={exp.ORDER} workflow={final.status.name}"
          f"  => {'ok' if ok else 'BROKEN'}")
    return ok


# ---------------------------------------------------------------- probe B
def scan(label, stages_fn, expected):
    store, queue, proc, wf = harness(stages_fn)
    LOG.clear()
    total = drain(queue, proc)
    ctl = list(LOG)
    ctl_status = store.retrieve(wf.id).status.name
    print(f"[{label}] control: order={ctl} workflow={ctl_status} messages={total}")
    bad = []
    for k in range(1, total):
        store, queue, proc, wf = harness(stages_fn)
        LOG.clear()

        def hook(n, k=k, store=store, queue=queue):
            if n == k:
                sweep(store, queue)

        drain(queue, proc, hook)
        st = store.retrieve(wf.id).status.name
        if LOG != expected or st != ctl_status:
            bad.append((k, list(LOG), st))
    for k, order, st in bad:
        print(f"[{label}]   sweep after msg #{k}: order={order} workflow={st}  VIOLATION")
    if not bad:
        print(f"[{label}]   sweep after each of msgs 1..{total - 1}: order and outcome unchanged")
    return not bad


def wf_b1():
    parent = mk("parent")
    after = mk("after", synthetic_stage_owner=SyntheticStageOwner.STAGE_AFTER)
    wf = Workflow.create(application="exp", name="b1", stages=[parent, after])
    after.parent_stage_id = parent.id
    return wf


def wf_b2():
    up = mk("up")
    parent = mk("parent", requisite_stage_ref_ids={"up"})
    before = mk("before", synthetic_stage_owner=SyntheticStageOwner.STAGE_BEFORE)
    wf = Workflow.create(application="exp", name="b2", stages=[up, parent, before])
    before.parent_stage_id = parent.id
    return wf


if __name__ == "__main__":
    print(f"REPO_ROOT={exp.REPO_ROOT}")
    a = probe_a()
    b1 = scan("B1 after-stage", wf_b1, ["parent", "after"])
    b2 = scan("B2 before-stage of waiting parent", wf_b2, ["up", "before", "parent"])
    sys.exit(0 if (a and b1 and b2) else 1)
