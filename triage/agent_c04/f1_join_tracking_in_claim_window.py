"""UNCHANGED code: a first-of / quorum join is claimed but never started (zero starts).

Worker 1 handles StartStage(d) for the DISCRIMINATOR join d (a finished, b about to finish) and commits the
claim (d RUNNING).  Before worker 1's post-plan commit, worker 2 handles CompleteStage(b): its
_update_join_tracking re-reads d (RUNNING), appends '_completed_branches' and stores d -> version bump.
Worker 1's post-plan store loses the CAS ("Unexpected ConcurrencyError after claiming stage"), is swallowed,
nothing is pushed.  b's own StartStage(d) then finds d RUNNING with (pre-declared) tasks and is ignored.
d stays RUNNING, its task NOT_STARTED, queue drained: the workflow is wedged.
Exits 1 (assertion) on the unchanged code.
"""
import os, sys, tempfile
ROOT = os.environ.get("REPO_ROOT") or os.path.dirname(os.path.dirname(os.path.dirname(os.path.abspath(__file__))))
sys.path.insert(0, os.path.join(ROOT, "src"))
from stabilize import (QueueProcessor, StageExecution, StartStageHandler, Task, TaskExecution, TaskRegistry,
                       TaskResult, Workflow, WorkflowStatus)
from stabilize.handlers.complete_stage.handler import CompleteStageHandler
from stabilize.models.stage import JoinType
from stabilize.persistence.sqlite import SqliteWorkflowStore
from stabilize.queue.messages import CompleteStage, StartStage
from stabilize.queue.sqlite import SqliteQueue

RUNS = []
class CountingTask(Task):
    def execute(self, stage):
        RUNS.append(stage.ref_id)
        return TaskResult.success(outputs={})

def task(st):
    t = TaskExecution.create(name="T", implementing_class="count", stage_start=True, stage_end=True)
    t.status = st
    return t

d = tempfile.mkdtemp(); cs = f"sqlite:///{d}/t.db"
store = SqliteWorkflowStore(cs, create_tables=True); q = SqliteQueue(cs); q._create_table()
wf = Workflow.create(application="x", name="w", stages=[
    StageExecution(ref_id="a", type="test", name="a", tasks=[task(WorkflowStatus.SUCCEEDED)]),
    StageExecution(ref_id="b", type="test", name="b", tasks=[task(WorkflowStatus.SUCCEEDED)]),
    StageExecution(ref_id="d", type="test", name="d", requisite_stage_ref_ids={"a", "b"},
                   join_type=JoinType.DISCRIMINATOR, tasks=[task(WorkflowStatus.NOT_STARTED)])])
wf.status = WorkflowStatus.RUNNING
for s in wf.stages:
    if s.ref_id != "d":
        s.status = WorkflowStatus.RUNNING
store.store(wf)
ids = {s.ref_id: s.id for s in wf.stages}
ss = StartStageHandler(q, store); cs_ = CompleteStageHandler(q, store)
cs_.handle(CompleteStage(execution_type="Workflow", execution_id=wf.id, stage_id=ids["a"]))
orig = ss._plan_stage
def plan(stage):  # preemption point between worker 1's claim commit and its post-plan commit
    cs_.handle(CompleteStage(execution_type="Workflow", execution_id=wf.id, stage_id=ids["b"]))
    return orig(stage)
ss._plan_stage = plan
ss.handle(StartStage(execution_type="Workflow", execution_id=wf.id, stage_id=ids["d"]))
reg = TaskRegistry(); reg.register("count", CountingTask)
QueueProcessor(q, store=store, task_registry=reg).process_all(timeout=10.0)
dd = store.retrieve_stage(ids["d"])
print("d:", dd.status.name, "task:", dd.tasks[0].status.name, "runs of d:", RUNS.count("d"), "workflow:", store.retrieve(wf.id).status.name)
assert RUNS.count("d") == 1, "join d was claimed but never started"
