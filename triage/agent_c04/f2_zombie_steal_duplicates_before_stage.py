"""UNCHANGED code: a stage whose tasks are built by its builder is planned twice in the claim window.

Worker 1 commits the claim of d (RUNNING, no tasks yet).  Before it plans, worker 2 handles the second
StartStage(d): d is RUNNING without tasks/synthetic stages -> "zombie" -> worker 2 re-claims (RUNNING->RUNNING
CAS at the current version), plans, stores, pushes.  Worker 1 then plans too (its add_stage of the setup stage
commits on its own), loses the post-plan CAS and returns.  Two setup stages exist under d, only worker 2's is
started, ContinueParentStage waits for the orphan forever: d never runs.
Exits 1 (assertion) on the unchanged code.
"""
import importlib.util, os, sys, tempfile
HERE = os.path.dirname(os.path.abspath(__file__))
ROOT = os.environ.get("REPO_ROOT") or os.path.dirname(os.path.dirname(HERE))
os.environ["REPO_ROOT"] = ROOT
spec = importlib.util.spec_from_file_location("demo2", "/verif/seeded/c04-6/demo.py")
m = importlib.util.module_from_spec(spec); spec.loader.exec_module(m)  # builders/tasks of demo 2 (sets sys.path)
from stabilize import QueueProcessor, StageExecution, StartStageHandler, TaskRegistry, Workflow, WorkflowStatus
from stabilize.persistence.sqlite import SqliteWorkflowStore
from stabilize.queue.messages import StartStage
from stabilize.queue.sqlite import SqliteQueue

m.register_builder(m.GuardedStageBuilder()); m.register_builder(m.SetupStageBuilder())
tmp = tempfile.mkdtemp(); cs = f"sqlite:///{tmp}/wf.db"
store = SqliteWorkflowStore(cs, create_tables=True); q = SqliteQueue(cs); q._create_table()
def done():
    t = m.one_task()[0]; t.status = WorkflowStatus.SUCCEEDED; return t
wf = Workflow.create(application="x", name="w", stages=[
    StageExecution(ref_id="b", type="test", name="b", tasks=[done()]),
    StageExecution(ref_id="c", type="test", name="c", tasks=[done()]),
    StageExecution(ref_id="d", type="guarded", name="d", requisite_stage_ref_ids={"b", "c"})])
wf.status = WorkflowStatus.RUNNING
for s in wf.stages:
    if s.ref_id in "bc":
        s.status = WorkflowStatus.SUCCEEDED
store.store(wf)
d_id = next(s.id for s in wf.stages if s.ref_id == "d")
msg = lambda: StartStage(execution_type="Workflow", execution_id=wf.id, stage_id=d_id)
w1 = StartStageHandler(q, store); w2 = StartStageHandler(q, store)
orig = w1._plan_stage
def plan(stage):  # preemption point right after worker 1's claim commit
    w2.handle(msg())
    return orig(stage)
w1._plan_stage = plan
w1.handle(msg())
n = len(store.get_synthetic_stages(wf.id, d_id))
reg = TaskRegistry(); reg.register("count", m.CountingTask)
QueueProcessor(q, store=store, task_registry=reg).process_all(timeout=10.0)
print("setup stages under d:", n, "runs:", m.RUNS, "d:", store.retrieve_stage(d_id).status.name)
assert n == 1 and m.RUNS.count("d") == 1, "d was planned twice (duplicate setup stage) and never ran"
