"""A BaseException inside a store transaction leaves it open; the next transaction on the thread commits its writes (C13/C04).

CompleteStage(a) is handled on the main thread; a KeyboardInterrupt (Ctrl-C) strikes inside the `with store.transaction()`
block after the stage and its stage.completed event were written. SqliteWorkflowStore.transaction() catches `Exception`
only: no rollback, the thread-local event scope stays bound. The application catches the interrupt (to shut down cleanly)
and performs one more, unrelated store transaction - whose commit makes the abandoned half transaction durable: stage a
SUCCEEDED and its event in the log, but no StartStage(b) in the queue and no processed mark.

exit 1 = abandoned writes became durable, exit 0 = the interrupted transaction left nothing behind.
"""
import logging
import os
import sys
import tempfile

REPO_ROOT = os.environ.get("REPO_ROOT", "/repo")
sys.path.insert(0, os.path.join(REPO_ROOT, "src"))

from stabilize.events import SqliteEventStore, configure_event_sourcing, reset_event_bus, reset_event_recorder  # noqa: E402
from stabilize.handlers import CompleteStageHandler  # noqa: E402
from stabilize.models.stage import StageExecution  # noqa: E402
from stabilize.models.status import WorkflowStatus  # noqa: E402
from stabilize.models.task import TaskExecution  # noqa: E402
from stabilize.models.workflow import Workflow  # noqa: E402
from stabilize.persistence.sqlite import SqliteWorkflowStore  # noqa: E402
from stabilize.persistence.sqlite.transaction import AtomicTransaction  # noqa: E402
from stabilize.queue import SqliteQueue  # noqa: E402
from stabilize.queue.messages import CompleteStage  # noqa: E402

logging.disable(logging.CRITICAL)


def main() -> int:
    tmp = tempfile.mkdtemp(prefix="baseexc-")
    url = f"sqlite:///{tmp}/demo.db"
    reset_event_bus()
    reset_event_recorder()
    store = SqliteWorkflowStore(url, create_tables=True)
    queue = SqliteQueue(url)
    queue._create_table()
    es = SqliteEventStore(url, create_tables=True)
    configure_event_sourcing(es)
    wf = Workflow.create(application="demo", name="w", stages=[
        StageExecution(ref_id="a", type="demo", name="a", tasks=[TaskExecution.create(name="t", implementing_class="x", stage_start=True, stage_end=True)]),
        StageExecution(ref_id="b", type="demo", name="b", requisite_stage_ref_ids={"a"}, tasks=[TaskExecution.create(name="t", implementing_class="x", stage_start=True, stage_end=True)]),
    ])
    wf.status = WorkflowStatus.RUNNING
    a, b = wf.stages
    a.status = WorkflowStatus.RUNNING
    a.tasks[0].status = WorkflowStatus.SUCCEEDED
    store.store(wf)
    orig = AtomicTransaction.push_message

    def interrupted(self, *args, **kw):
        raise KeyboardInterrupt()

    AtomicTransaction.push_message = interrupted
    try:
        CompleteStageHandler(queue, store).handle(CompleteStage(execution_type="PIPELINE", execution_id=wf.id, stage_id=a.id, message_id="m1"))
    except KeyboardInterrupt:
        print("Ctrl-C caught by the application; shutting down cleanly ...")
    AtomicTransaction.push_message = orig
    # one more, unrelated transaction on the same thread (e.g. the shutdown hook records something)
    with store.transaction(queue) as txn:
        txn.mark_message_processed(message_id="shutdown-marker", handler_type="App", execution_id=wf.id)
    conn = store._get_connection()
    st = store.retrieve_stage(a.id).status.name
    ev = [r[0] for r in conn.execute("select event_type from events where entity_id = ?", (a.id,))]
    print("stage a in the store:", st, "| durable events for a:", ev, "| queue size:", queue.size())
    if st != "RUNNING" or ev:
        print("ABANDONED WRITES DURABLE: stage", st, "events", ev, "- and nothing will ever start stage b")
        return 1
    print("ok: the interrupted transaction left nothing behind")
    return 0


if __name__ == "__main__":
    sys.exit(main())
