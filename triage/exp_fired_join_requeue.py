#!/usr/bin/env python
"""Candidate 3: the losing upstream's StartStage(join) of a fired DISCRIMINATOR join.

Workflow  root -> (fast, slow) -> join(DISCRIMINATOR).

The join fires on the first upstream (`_join_fired`).  The StartStage(join) pushed when the
OTHER upstream completes evaluates NOT_READY ("already fired") with an EMPTY
active_upstream_ids, so StartStageHandler takes neither the "wait for active upstream"
exit nor READY and re-queues StartStage(join, retry_count+1) after retry_delay
(15 s) - up to max_stage_wait_retries (240 -> one hour) - regardless of the join's or
the workflow's status.  At the limit it tries to mark the join TERMINAL.

Scenario A  plain in-order delivery (delays ignored): what is left in the queue once the
            workflow is SUCCEEDED, for how many rounds it survives, and what the final
            round does to the SUCCEEDED join.
Scenario B  same, but the join's own RunTask is withheld while the retries cycle (a join
            body that runs longer than retries x delay, i.e. > 1 h with defaults):
            RUNNING -> TERMINAL is a legal transition.

The retry limit is read from STABILIZE_MAX_STAGE_WAIT_RETRIES (engine default 240, kept
unless overridden; the registered StartStageHandler reads the env-backed singleton).

Exit 1 when the engine is not quiet at workflow completion / the retry tail damages state.
"""
from __future__ import annotations

import os
import sys

sys.path.insert(0, os.path.dirname(os.path.abspath(__file__)))
from tri5_rig import Rig  # noqa: E402

from stabilize import TaskResult  # noqa: E402
from stabilize.models.stage import JoinType, StageExecution  # noqa: E402
from stabilize.models.status import WorkflowStatus  # noqa: E402
from stabilize.models.task import TaskExecution  # noqa: E402
from stabilize.queue.messages import RunTask, StartStage  # noqa: E402
from stabilize.resilience.config import get_handler_config, reset_handler_config  # noqa: E402
from stabilize.tasks.interface import Task  # noqa: E402

reset_handler_config()
LIMIT = get_handler_config().max_stage_wait_retries
DELAY = get_handler_config().handler_retry_delay_seconds

RUNS: dict[str, int] = {}


class Out(Task):
    def execute(self, stage: StageExecution) -> TaskResult:
        RUNS[stage.ref_id] = RUNS.get(stage.ref_id, 0) + 1
        return TaskResult.success(outputs={f"{stage.ref_id}_done": True})


def t() -> list[TaskExecution]:
    return [TaskExecution.create(name="out", implementing_class="out", stage_start=True, stage_end=True)]


def make() -> Rig:
    RUNS.clear()
    return Rig(
        [
            StageExecution(ref_id="root", name="root", tasks=t()),
            StageExecution(ref_id="fast", name="fast", requisite_stage_ref_ids={"root"}, tasks=t()),
            StageExecution(ref_id="slow", name="slow", requisite_stage_ref_ids={"root"}, tasks=t()),
            StageExecution(
                ref_id="join",
                name="join",
                requisite_stage_ref_ids={"fast", "slow"},
                join_type=JoinType.DISCRIMINATOR,
                tasks=t(),
            ),
        ],
        {"out": Out},
    )


def dlq_size(rig: Rig) -> int:
    try:
        return rig.q.dlq_size()
    except Exception:
        conn = rig.q._get_connection()
        return conn.execute(f"SELECT COUNT(*) FROM {rig.q.table_name}_dlq").fetchone()[0]


def join_view(rig: Rig) -> dict:
    j = rig.stage("join")
    return {
        "status": j.status.name,
        "tasks": [x.status.name for x in j.tasks],
        "context.exception": j.context.get("exception"),
        "context.beforeStagePlanningFailed": j.context.get("beforeStagePlanningFailed"),
    }


def scenario_a() -> bool:
    print(f"=== Scenario A: in-order delivery, limit={LIMIT}, retry_delay={DELAY}s")
    rig = make()
    wf_status = lambda: rig.store.retrieve(rig.wf.id).status  # noqa: E731
    rig.drain_fifo(until=lambda: wf_status().is_complete, limit=2000)
    left = rig.pending()
    print("workflow:", wf_status().name, "| join:", join_view(rig)["status"], "| body runs:", dict(RUNS))
    print("queue at workflow completion (FIFO control expectation: empty):", [rig.label(m) for m in left])
    not_quiet = bool(left)
    before = join_view(rig)
    mark = len(rig.trace)
    rounds = 0
    while rig.pending() and rounds < LIMIT + 50:
        rig.deliver(rig.pending()[0])
        rounds += 1
    rig.trace = rig.trace[mark:]
    print(f"tail after completion: {rounds} more deliveries (~{rounds * DELAY / 60:.0f} min of real time at {DELAY}s each):")
    for line in rig.compact_trace():
        print("   ", line)
    after = join_view(rig)
    print("join before tail:", before)
    print("join after  tail:", after)
    print("workflow after tail:", wf_status().name, "| queue:", [rig.label(m) for m in rig.pending()], "| DLQ rows:", dlq_size(rig))
    damaged = before != after
    if not_quiet:
        print(f"-> NOT QUIET: a StartStage(join) survives workflow completion and is re-queued {LIMIT} times")
    if damaged:
        print("-> the final round (retry_count == limit) hit SUCCEEDED->TERMINAL = InvalidStateTransitionError, which the")
        print("   handler's generic except turned into a 'planning failed' write on the finished stage (+ CompleteStage)")
    print()
    return not_quiet or damaged


def scenario_b() -> bool:
    print(f"=== Scenario B: join body still running when the retry budget runs out (limit={LIMIT})")
    rig = make()
    # in order until the join has fired and its RunTask is pending; withhold that RunTask
    rig.drain_fifo(until=lambda: any(rig.is_for(m, RunTask, "join") for m in rig.pending()), limit=2000)
    held = next(m for m in rig.pending() if rig.is_for(m, RunTask, "join"))
    rig.trace.append(f"   -- withholding {rig.label(held)}: join body 'still running'")
    rig.drain_fifo(hold=lambda m: m.message_id == held.message_id, limit=2000)
    for line in rig.compact_trace()[-8:]:
        print("   ", line)
    j = join_view(rig)
    wf = rig.store.retrieve(rig.wf.id)
    print("join:", j)
    print("workflow:", wf.status.name, "| join body runs:", RUNS.get("join", 0))
    rig.deliver(held, "   (the join body finally runs)")
    rig.drain_fifo(limit=2000)
    wf = rig.store.retrieve(rig.wf.id)
    print("after the withheld RunTask(join) is delivered -> workflow:", wf.status.name, "| join:", join_view(rig)["status"],
          "| join body runs:", RUNS.get("join", 0))
    print("FIFO control: workflow SUCCEEDED, join SUCCEEDED, join body runs 1")
    bad = wf.status != WorkflowStatus.SUCCEEDED
    if bad:
        print("-> a RUNNING, correctly fired join was failed TERMINAL by the losing upstream's StartStage retry budget")
    print()
    return bad


def main() -> int:
    a = scenario_a()
    b = scenario_b()
    if a or b:
        print("DEFECT reproduced")
        return 1
    print("OK: engine quiet at completion")
    return 0


if __name__ == "__main__":
    sys.exit(main())
