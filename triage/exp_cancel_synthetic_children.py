"""After a cancel, pre-declared synthetic child stages that had not started stay NOT_STARTED for good (C17).

parent (one task) with a STAGE_BEFORE child `setup` and a STAGE_AFTER child `teardown`, both pre-declared.
The cancel request is processed while `setup` is running (its RunTask is queued). CancelWorkflow pushes CancelStage only for
top-level stages; CancelStage does not cascade. Outcome on the defective tree: workflow CANCELED, parent CANCELED, setup
CANCELED (via the RunTask guard) - and teardown NOT_STARTED with its task NOT_STARTED, although "every stage that had not
already finished ends canceled".

exit 1 = a stage is left unfinished in the canceled workflow, exit 0 = every stage ended.
"""
import os
import sys

sys.path.insert(0, os.path.dirname(os.path.abspath(__file__)))
from tri5_rig import Rig  # noqa: E402

from stabilize.models.stage import StageExecution, SyntheticStageOwner  # noqa: E402
from stabilize.models.task import TaskExecution  # noqa: E402
from stabilize.queue.messages import CancelWorkflow, RunTask  # noqa: E402
from stabilize.tasks.interface import Task  # noqa: E402
from stabilize.tasks.result import TaskResult  # noqa: E402

ran = []


class Ok(Task):
    def execute(self, stage):
        ran.append(stage.ref_id)
        return TaskResult.success()


def st(ref, **kw):
    return StageExecution(ref_id=ref, type="demo", name=ref, tasks=[TaskExecution.create(name=ref + "-t", implementing_class="ok", stage_start=True, stage_end=True)], **kw)


def main() -> int:
    parent = st("parent")
    setup = st("setup", synthetic_stage_owner=SyntheticStageOwner.STAGE_BEFORE)
    teardown = st("teardown", synthetic_stage_owner=SyntheticStageOwner.STAGE_AFTER)
    setup.parent_stage_id = parent.id
    teardown.parent_stage_id = parent.id
    rig = Rig([parent, setup, teardown], {"ok": Ok})
    rig.drain_fifo(until=lambda: any(rig.is_for(m, RunTask, "setup") for m in rig.pending()))
    rig.q.push(CancelWorkflow(execution_type="PIPELINE", execution_id=rig.wf.id, user="demo", reason="demo"))
    cancel = [m for m in rig.pending() if isinstance(m, CancelWorkflow)][0]
    rig.deliver(cancel, "   <- cancel accepted while setup's RunTask is queued")
    rig.drain_fifo()
    snap = rig.snapshot()
    print("\n".join("  " + t for t in rig.compact_trace()))
    print(snap["workflow"], snap["stages"], snap["tasks"], "tasks executed:", ran)
    left = {k: v for k, v in snap["stages"].items() if v in ("NOT_STARTED", "RUNNING", "PAUSED", "SUSPENDED")}
    if snap["workflow"] == "CANCELED" and left:
        print("DEFECT REPRODUCED: workflow CANCELED, yet unfinished stages remain:", left)
        return 1
    print("ok: every stage of the canceled workflow ended")
    return 0


if __name__ == "__main__":
    sys.exit(main())
