from h import *
import threading, time
BEHAV.clear()
gate = threading.Event()
def p_beh(n, s):
    t = s.context.get("t")
    if n == 1:
        gate.wait(20)
    return TaskResult.success(outputs={"p_saw_t": t, "p_visit": n})
BEHAV["T"] = lambda n, s: TaskResult.success(outputs={"t": n})
BEHAV["P"] = p_beh
BEHAV["S"] = lambda n, s: TaskResult.jump_to("T") if n == 1 else TaskResult.success()
SEEN.clear(); VISITS.clear()
store, queue, proc, orch = engine()
wf = Workflow.create(application="t", name="w", stages=[st("T"), st("P", ["T"]), st("X", ["T"]), st("S", ["X"]), st("F", ["S", "P"])])
store.store(wf); orch.start(wf)
proc.start()
t0 = time.time()
while VISITS.get("T", 0) < 2 and time.time() - t0 < 15: time.sleep(0.05)
time.sleep(2.0)
print("before release:", {s.ref_id: (s.status.name, s.outputs) for s in store.retrieve(wf.id).stages})
gate.set()
t0 = time.time()
while time.time() - t0 < 15:
    w = store.retrieve(wf.id)
    if w.status.is_complete: break
    time.sleep(0.2)
proc.stop()
w = store.retrieve(wf.id)
print(w.status, {s.ref_id: (s.status.name, s.outputs) for s in w.stages})
print("VISITS", VISITS)
print("F saw", {k: v for k, v in (seen("F") or {}).items() if not k.startswith("_")})
