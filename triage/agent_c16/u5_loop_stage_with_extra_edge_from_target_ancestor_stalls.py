from h import *
BEHAV.clear()
# A -> T -> X -> S, A -> X as well; S jumps back to T once.
BEHAV["A"] = lambda n, s: TaskResult.success(outputs={"a": 1})
BEHAV["T"] = lambda n, s: TaskResult.success(outputs={"t": n})
BEHAV["X"] = lambda n, s: TaskResult.success(outputs={"x": s.context.get("t")})
BEHAV["S"] = lambda n, s: TaskResult.jump_to("T") if n == 1 else TaskResult.success()
wf = run([st("A"), st("T", ["A"]), st("X", ["T", "A"]), st("S", ["X"]), st("F", ["S"])], timeout=8)
print(wf.status, {s.ref_id: (s.status.name, s.outputs) for s in wf.stages})
for r,k,c in SEEN: print(r,k,{x:y for x,y in c.items() if not x.startswith('_jump')})
