from h import *
# Experiment 1: list key own + ancestors, across loop iterations
# A -> B -> C ; C jumps back to A once; A outputs items per iteration; B has own list
BEHAV.clear()
BEHAV["A"] = lambda n, s: TaskResult.success(outputs={"items": [f"a{n}"], "v": n})
BEHAV["C"] = lambda n, s: TaskResult.jump_to("A") if n == 1 else TaskResult.success()
wf = run([st("A"), st("B", ["A"], {"items": ["own"]}), st("C", ["B"])])
print(wf.status)
for r,k,c in SEEN: print(r,k,{x:y for x,y in c.items() if not x.startswith('_jump')})
