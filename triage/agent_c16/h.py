import os, sys, tempfile, copy
ROOT = os.environ.get("REPO_ROOT") or os.path.dirname(os.path.dirname(os.path.dirname(os.path.abspath(__file__))))
sys.path.insert(0, os.path.join(ROOT, "src"))
from stabilize import (Orchestrator, QueueProcessor, SqliteQueue, SqliteWorkflowStore, StageExecution,
                       TaskExecution, TaskRegistry, Workflow, WorkflowStatus, TaskResult)
from stabilize.tasks.interface import Task

SEEN = []      # (ref_id, visit_no, context copy)
VISITS = {}
BEHAV = {}     # ref_id -> callable(visit_no, stage) -> TaskResult

class Emit(Task):
    def execute(self, stage):
        n = VISITS.get(stage.ref_id, 0) + 1
        VISITS[stage.ref_id] = n
        SEEN.append((stage.ref_id, n, copy.deepcopy(dict(stage.context))))
        f = BEHAV.get(stage.ref_id)
        return f(n, stage) if f else TaskResult.success()

def engine():
    d = tempfile.mkdtemp()
    url = f"sqlite:///{d}/t.db"
    store = SqliteWorkflowStore(url, create_tables=True)
    queue = SqliteQueue(url, table_name="queue_messages")
    queue._create_table()
    reg = TaskRegistry()
    reg.register("emit", Emit)
    proc = QueueProcessor(queue, store=store, task_registry=reg)
    return store, queue, proc, Orchestrator(queue)

def st(ref, reqs=(), context=None, **kw):
    return StageExecution(ref_id=ref, name=ref, requisite_stage_ref_ids=set(reqs), context=dict(context or {}),
        tasks=[TaskExecution.create(name="t", implementing_class="emit", stage_start=True, stage_end=True)], **kw)

def run(stages, timeout=20.0):
    SEEN.clear(); VISITS.clear()
    store, queue, proc, orch = engine()
    wf = Workflow.create(application="t", name="w", stages=stages)
    store.store(wf); orch.start(wf); proc.process_all(timeout=timeout)
    return store.retrieve(wf.id)

def seen(ref, n=1):
    for r, k, c in SEEN:
        if r == ref and k == n: return c
    return None
