from h import *
from stabilize.context.stage_context import StageContext, create_merged_context
# A -> B -> D, A -> C -> D  ; K produced by A and C. Nearest on path A->C->D is C.
a, b, c, d = st("A"), st("B", ["A"]), st("C", ["A"]), st("D", ["B", "C"])
wf = Workflow.create(application="t", name="w", stages=[a, b, c, d])
a.outputs = {"k": "A"}; c.outputs = {"k": "C"}; b.outputs = {"other": 1}
ctx = StageContext(d, {})
print("ancestors:", [s.ref_id for s in d.ancestors()])
print("ctx['k'] =", ctx["k"], " get_all =", ctx.get_all("k"), " merge =", ctx.merge_with_ancestors()["k"], " create_merged =", create_merged_context(d)["k"])
