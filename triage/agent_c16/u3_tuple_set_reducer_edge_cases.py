from h import *
BEHAV.clear()
# tuple-valued key: A -> B -> D ; both produce pair as tuple
BEHAV["A"] = lambda n, s: TaskResult.success(outputs={"pair": (1, 2), "tags": {"x"}, "m": {1: "a"}})
BEHAV["B"] = lambda n, s: TaskResult.success(outputs={"pair": (3, 4)})
wf = run([st("A"), st("B", ["A"]), st("D", ["B"])])
print(wf.status, seen("D"))
# reducer max with None / own default dropped
BEHAV.clear()
BEHAV["b1"] = lambda n, s: TaskResult.success(outputs={"score": None, "other": 1})
BEHAV["b2"] = lambda n, s: TaskResult.success(outputs={"score": None})
wf = run([st("b1"), st("b2"), st("J", ["b1", "b2"], output_reducers={"score": "max"})], timeout=8)
print(wf.status, {s.ref_id: s.status.name for s in wf.stages}, seen("J"), wf.stage_by_ref_id("J").context.get("exception"))
BEHAV.clear()
BEHAV["b1"] = lambda n, s: TaskResult.success(outputs={"other": 1})
wf = run([st("b1"), st("b2"), st("J", ["b1", "b2"], {"score": 0}, output_reducers={"score": "sum"})], timeout=8)
print(wf.status, seen("J"))
# chain branch: value produced deeper in the branch is not reduced
BEHAV.clear()
BEHAV["x1"] = lambda n, s: TaskResult.success(outputs={"score": 5})
BEHAV["y1"] = lambda n, s: TaskResult.success(outputs={"score": 7})
wf = run([st("x1"), st("x2", ["x1"]), st("y1"), st("J", ["x2", "y1"], output_reducers={"score": "sum"})], timeout=8)
print(wf.status, seen("J"))
