#!/usr/bin/env python3
"""detect.py <seed-dir> [Cnn ...] - run the checks against a scratch copy of /repo with the seed's patch applied.
Prints, per property, the exit code and the first violation line. Default: the seed's own property (from the dir name) only;
`all` runs every rule module."""
import glob, os, re, shutil, subprocess, sys, tempfile

V = os.path.dirname(os.path.dirname(os.path.abspath(__file__)))
seed = os.path.abspath(sys.argv[1])
props = [a.upper() for a in sys.argv[2:]]
if not props:
    m = re.match(r"(c\d\d)", os.path.basename(seed))
    props = [m.group(1).upper()] if m else []
if props == ["ALL"]:
    props = sorted(os.path.basename(f)[:-3].upper() for f in glob.glob(os.path.join(V, "sa/rules/c[0-9][0-9].py")))
tmp = tempfile.mkdtemp(prefix="sa-detect-")
try:
    dst = os.path.join(tmp, "repo")
    os.makedirs(dst)
    shutil.copytree("/repo/src", os.path.join(dst, "src"), ignore=shutil.ignore_patterns("__pycache__"))
    r = subprocess.run(["patch", "-p1", "-s", "-i", os.path.join(seed, "patch.diff")], cwd=dst, capture_output=True, text=True)
    if r.returncode != 0:
        print("PATCH-FAILED", r.stdout[-300:], r.stderr[-300:])
        sys.exit(2)
    env = dict(os.environ, SA_NO_CACHE="1", SA_JOBS="8")
    for p in props:
        r = subprocess.run([sys.executable if sys.executable.startswith("/venv") else "/venv/bin/python", "-m", "sa.cli", p, "--repo", dst, "--no-evidence"], cwd=V, capture_output=True, text=True, env=env)
        lines = [l.strip() for l in r.stdout.splitlines() if "rule=" in l or l.startswith("ANALYSIS-ERROR")]
        print(f"{os.path.basename(seed)} {p} exit={r.returncode} " + (lines[0][:260] if lines else ""))
        for l in lines[1:4]:
            print("      " + l[:240])
finally:
    shutil.rmtree(tmp, ignore_errors=True)
