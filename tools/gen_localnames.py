#!/usr/bin/env python3
"""Regenerates /verif/sa/localnames.json - the reviewed tree's local-variable names keyed by definition signature
(see sa/canon.py). Run after reviewing a change of /repo that the rules were adapted to; never at check time."""
import ast, json, os, sys
sys.path.insert(0, os.path.dirname(os.path.dirname(os.path.abspath(__file__))))
from sa import canon

repo = sys.argv[1] if len(sys.argv) > 1 else "/repo"
root = os.path.join(repo, "src")
trees = {}
for d, _, files in os.walk(os.path.join(root, "stabilize")):
    for f in sorted(files):
        if f.endswith(".py"):
            p = os.path.join(d, f)
            sub = os.path.relpath(p, root)[:-3].split(os.sep)
            if sub[-1] == "__init__":
                sub = sub[:-1]
            t = ast.parse(open(p, encoding="utf-8").read())
            canon.normalise_comparisons(t)       # same normal forms as sa/model.py applies before canonicalise()
            canon.normalise_ifs(t)
            trees[".".join(sub)] = t
table = canon.build_table(trees)
json.dump(table, open(canon.TABLE, "w"), indent=0, sort_keys=True)
n = sum(len(e["locals"]) + len(e["comps"]) for m in table.values() for e in m.values())
print(f"{len(table)} modules, {sum(len(m) for m in table.values())} functions, {n} names -> {canon.TABLE}")
