#!/usr/bin/env python3
"""refactor_fuzz.py <mode> <dst> - writes a behaviour-preserving variant of /repo/src to <dst>/src.
modes:  unparse  - every module re-emitted by ast.unparse (formatting, quotes, comments, all line numbers change)
        rename   - unparse + every function-local variable renamed (x -> x_rn), scope-aware and conservative
        pad      - original text with 3 comment lines inserted before every top-level def/class (line shift only)
Used to test that the checks stay silent on edits that leave behaviour unchanged."""
import ast, os, shutil, sys, builtins

mode, dst = sys.argv[1], sys.argv[2]
SRC = "/repo/src"
shutil.rmtree(os.path.join(dst, "src"), ignore_errors=True)
shutil.copytree(SRC, os.path.join(dst, "src"), ignore=shutil.ignore_patterns("__pycache__"))


def own_nodes(fn):
    """nodes of fn's own scope (not descending into nested function/class/lambda bodies; comprehensions are descended)"""
    stack = list(ast.iter_child_nodes(fn))
    while stack:
        n = stack.pop()
        yield n
        if isinstance(n, (ast.FunctionDef, ast.AsyncFunctionDef, ast.Lambda, ast.ClassDef)):
            continue
        stack.extend(ast.iter_child_nodes(n))


def assigned_names(fn):
    out = set()
    for n in own_nodes(fn):
        if isinstance(n, ast.Name) and isinstance(n.ctx, (ast.Store, ast.Del)):
            out.add(n.id)
        elif isinstance(n, ast.ExceptHandler) and n.name:
            out.add(n.name)
        elif isinstance(n, (ast.Import, ast.ImportFrom)):
            for a in n.names:
                out.add((a.asname or a.name).split(".")[0])
        elif isinstance(n, (ast.FunctionDef, ast.AsyncFunctionDef, ast.ClassDef)):
            out.add(n.name)
    return out


def params(fn):
    a = fn.args
    ps = [x.arg for x in a.posonlyargs + a.args + a.kwonlyargs]
    if a.vararg:
        ps.append(a.vararg.arg)
    if a.kwarg:
        ps.append(a.kwarg.arg)
    return set(ps)


def rename_locals(tree):
    for fn in [n for n in ast.walk(tree) if isinstance(n, (ast.FunctionDef, ast.AsyncFunctionDef))]:
        decl = set()
        for n in ast.walk(fn):
            if isinstance(n, (ast.Global, ast.Nonlocal)):
                decl |= set(n.names)
        imported = set()
        defs = set()
        handler_names = set()
        for n in own_nodes(fn):
            if isinstance(n, (ast.Import, ast.ImportFrom)):
                imported |= {(a.asname or a.name).split(".")[0] for a in n.names}
            if isinstance(n, (ast.FunctionDef, ast.AsyncFunctionDef, ast.ClassDef)):
                defs.add(n.name)
            if isinstance(n, ast.ExceptHandler) and n.name:
                handler_names.add(n.name)
        cands = assigned_names(fn) - params(fn) - decl - imported - defs - handler_names - set(dir(builtins))
        # names rebound (param or assignment) in a nested scope, or already renamed by an enclosing pass: leave alone
        nested = [n for n in ast.walk(fn) if isinstance(n, (ast.FunctionDef, ast.AsyncFunctionDef, ast.Lambda)) and n is not fn]
        for nf in nested:
            cands -= params(nf)
            if not isinstance(nf, ast.Lambda):
                cands -= assigned_names(nf)
        cands = {c for c in cands if not c.endswith("_rn") and not c.startswith("__")}
        if not cands:
            continue
        for n in ast.walk(fn):
            if isinstance(n, ast.Name) and n.id in cands:
                n.id = n.id + "_rn"
    return tree


for root, _, files in os.walk(os.path.join(dst, "src")):
    for f in files:
        if not f.endswith(".py"):
            continue
        p = os.path.join(root, f)
        text = open(p, encoding="utf-8").read()
        if mode == "pad":
            out = []
            for line in text.splitlines(keepends=True):
                if line.startswith(("def ", "class ", "async def ")):
                    out.append("# pad\n# pad\n# pad\n")
                out.append(line)
            new = "".join(out)
        else:
            tree = ast.parse(text)
            if mode == "rename":
                tree = rename_locals(tree)
            new = ast.unparse(tree) + "\n"
        compile(new, p, "exec")
        open(p, "w", encoding="utf-8").write(new)
print("written", mode, dst)
