#!/usr/bin/env python3
"""refactor_fuzz.py <mode> <dst> - writes a behaviour-preserving variant of /repo/src to <dst>/src (see sa/fuzz_transforms.py)."""
import os, sys
sys.path.insert(0, os.path.dirname(os.path.dirname(os.path.abspath(__file__))))
from sa.fuzz_transforms import write_variant, MODES
if len(sys.argv) < 3 or sys.argv[1] not in MODES:
    sys.exit(f"usage: refactor_fuzz.py {{{'|'.join(MODES)}}} <dst>")
write_variant(sys.argv[1], sys.argv[2])
print("written", sys.argv[1], sys.argv[2])
