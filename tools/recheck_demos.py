#!/usr/bin/env python3
"""recheck_demos.py [seed-id ...] - after /repo moved on (fix: commits), re-run every seed's demonstration in a scratch worktree
of the CURRENT /repo HEAD: without the patch it must pass (exit 0), with the patch it must fail. Prints one line per seed;
a seed whose demo no longer fails has been neutralised by a repair and needs a new demonstration (or retiring)."""
import concurrent.futures as cf
import os
import re
import subprocess
import sys
import tempfile

V = os.path.dirname(os.path.dirname(os.path.abspath(__file__)))
SD = os.path.join(V, "seeded")
ids = sys.argv[1:] or sorted(d for d in os.listdir(SD) if os.path.exists(os.path.join(SD, d, "patch.diff")))


def one(sid: str) -> str:
    d = os.path.join(SD, sid)
    demo = next((f for f in sorted(os.listdir(d)) if re.match(r"(demo|test_demo).*\.py$", f)), None)
    if demo is None:
        return f"{sid} NO-DEMO"
    wt = tempfile.mkdtemp(prefix=f"rd-{sid}-")
    os.rmdir(wt)
    subprocess.run(["git", "-C", "/repo", "worktree", "add", "-q", "--detach", wt, "HEAD"], check=True, capture_output=True)
    try:
        env = dict(os.environ, REPO_ROOT=wt, REPO_SRC=wt + "/src", PYTHONPATH=wt + "/src")

        def run() -> int:
            try:
                return subprocess.run(["/venv/bin/python", os.path.join(d, demo)], cwd=wt, env=env, capture_output=True, timeout=600).returncode
            except subprocess.TimeoutExpired:
                return 124
        a = run()
        r = subprocess.run(["git", "-C", wt, "apply", os.path.join(d, "patch.diff")], capture_output=True)
        if r.returncode != 0:
            r = subprocess.run(["patch", "-p1", "-s", "-i", os.path.join(d, "patch.diff")], cwd=wt, capture_output=True)
            if r.returncode != 0:
                return f"{sid} PATCH-FAILED without={a}"
        b = run()
        verdict = "ok" if a == 0 and b != 0 else "NEUTRALISED" if a == 0 and b == 0 else "BASELINE-FAILS"
        return f"{sid} {verdict} without={a} with={b}"
    finally:
        subprocess.run(["git", "-C", "/repo", "worktree", "remove", "--force", wt], capture_output=True)


with cf.ThreadPoolExecutor(max_workers=6) as ex:
    for line in ex.map(one, ids):
        print(line, flush=True)
