#!/usr/bin/env python3
"""gen_meta.py [seed-id ...] - (re)writes seeded/<id>/meta.json: property, what the change is, what it needs to manifest,
what was run to confirm it (validation.txt, produced by tools/validate_seed.sh in a scratch worktree), and which
check/rule reports it (produced by running the property's check on a scratch copy with the patch applied)."""
import json, os, re, subprocess, sys

V = os.path.dirname(os.path.dirname(os.path.abspath(__file__)))
SD = os.path.join(V, "seeded")
ids = sys.argv[1:] or sorted(d for d in os.listdir(SD) if os.path.exists(os.path.join(SD, d, "patch.diff")))


def section(md: str, pats) -> str:
    """text of the first markdown section whose heading matches one of pats"""
    parts = re.split(r"(?m)^(#{1,4} .*)$", md)
    for i in range(1, len(parts), 2):
        if any(re.search(p, parts[i], re.I) for p in pats):
            return " ".join(parts[i + 1].split())[:900]
    return ""


for sid in ids:
    d = os.path.join(SD, sid)
    notes = open(os.path.join(d, "notes.md"), encoding="utf-8").read() if os.path.exists(os.path.join(d, "notes.md")) else ""
    patch = open(os.path.join(d, "patch.diff"), encoding="utf-8").read()
    files = sorted(set(re.findall(r"(?m)^\+\+\+ b/(\S+)", patch)))
    prop = sid.split("-")[0].upper()
    what = section(notes, [r"the change", r"what it does", r"change"]) or " ".join(notes.split())[:600]
    needs = section(notes, [r"need", r"manifest", r"trigger", r"how to"]) or ""
    breaks = section(notes, [r"break", r"which behaviou?r", r"effect"]) or ""
    val = open(os.path.join(d, "validation.txt")).read().strip().splitlines() if os.path.exists(os.path.join(d, "validation.txt")) else []
    r = subprocess.run(["/venv/bin/python", os.path.join(V, "tools/detect.py"), d, prop], capture_output=True, text=True, cwd=V)
    det = [l.strip() for l in r.stdout.splitlines() if l.strip()]
    rules = sorted(set(re.findall(r"rule=(C\d\d\.R\w+)", r.stdout)))
    exit_m = re.search(r"exit=(\d)", r.stdout)
    meta = {
        "id": sid,
        "property": prop,
        "origin": "independent sub-agent given only the property text and a scratch worktree of the repository",
        "files_touched": files,
        "what_changes": what,
        "what_breaks": breaks,
        "needs_to_manifest": needs,
        "demo": next((f for f in os.listdir(d) if re.match(r"(demo|test_demo).*\.py$", f)), None),
        "confirmed_by": {"how": "tools/validate_seed.sh in a scratch git worktree of /repo (demo without the patch, demo with it, full test suite with it)", "result": val},
        "checker": {"command": f"tools/detect.py seeded/{sid} {prop}  (./check {prop} --repo <scratch copy with the patch>)", "exit": int(exit_m.group(1)) if exit_m else None, "rules_reporting": rules, "first_report": det[0][:300] if det else ""},
    }
    json.dump(meta, open(os.path.join(d, "meta.json"), "w"), indent=1)
    print(sid, "exit", meta["checker"]["exit"], rules)
