#!/usr/bin/env python3
"""Regenerates /verif/MANIFEST.json from the table below (run after adding a rule module)."""
import json
import os

V = os.path.dirname(os.path.dirname(os.path.abspath(__file__)))
props = [json.loads(l) for l in open(os.path.join(V, "properties.jsonl"))]

CLAIMED = {
    # id: (technique, level text, level note, design ref)
    "C01": ("commit-sequence typestate over all handler paths (path-sensitive abstract interpretation of the AST) + SQL shape rules",
            "Decides necessary structural clauses: processed-mark only in the last commit of every handler path, multi-commit paths restricted to reviewed shapes, unmarked commits flip the guard status, nothing commits inside a transaction body, recovery case split exhaustive, claim CAS expects the status read, poll re-admits lapsed locks, every pushed message gets a fresh row identity, a stage with predefined tasks survives a kill between its claim and plan commits. Does not decide outcome equality with an uninterrupted run.",
            "Trusted: CPython ast, SQLite atomic commit, reviewed tables in sa/rules/c01.py (multi-commit shapes, no-mark list). Loops 0/1, exceptions at calls only.", "5/C01"),
    "C02": ("truth table over the extracted dedup guard + value-set entry-guard analysis on all handler paths + who-may-call",
            "Decides: durable duplicate check dominates dispatch (16+ row truth table), every effectful commit of each handler is reached only with the addressed entity read in the step's start status, execute only under RUNNING / not canceled; task-level messages carry no loop-iteration identity (one listed known finding: a stale message of the previous iteration is accepted by the re-armed task); CompleteTask continues the stage only on paths that decided the result is not REDIRECT; the ancestor merge reads only schedule-independent columns. Does not decide outcome equality under permutations.",
            "Trusted: status sets read from models/status.py, guard table in sa/rules/c02.py.", "5/C02"),
    "C03": ("collector algebra over the join evaluators (status predicates as sets, dominating conditions of every READY return) + dispatch exhaustiveness + control-dependence / who-may-call rules in StartStageHandler + commit-effect rule on all handler paths",
            "Decides: every READY of the AND / OR / first-of / multi-merge / quorum evaluators is returned only where the code has established that all (activated) / one / join_threshold upstreams are in a continuable status and the join has not fired; a halted upstream yields SKIP before READY; every JoinType member reaches its evaluator; tasks are planned only via _start_if_ready under phase == READY computed from upstreams read in the same activation; the jump bypass has one writer (the jump target) and is consumed; no commit that stores its own stage halted pushes StartStage; SkipStage / SKIPPED only for a READY stage, never in the SKIP (upstream halted) phase. Does not decide the order of executions under every schedule.",
            "Trusted: status sets of models/status.py as written; C04 for the claim.", "5/C03"),
    "C04": ("ordering analysis on all paths of _start_if_ready (claim CAS before planning) + SQL shape of the phase CAS + join-flag ordering",
            "Decides: every planning side effect is dominated by a committed store_stage(expected_phase=status read); the CAS loser does nothing; the phase UPDATEs are CAS on (id, version, status); first-of/quorum joins are marked fired between claim and plan and never READY again; CompleteStage pushes StartStage for every activated downstream (never narrowed by a read of the join's other upstreams); the zombie re-plan lacks evidence that the first claimer is gone (one listed known finding: double planning in the claim window). Does not decide the interleavings themselves.",
            "Trusted: SQLite writer serialisation (the conditional UPDATE is the linearisation point).", "5/C04"),
    "C06": ("typestate of .status writes on all handler paths (validated / legal from the path condition / listed re-arm / not durable) + whole-program scan + SQL who-may-write",
            "Decides: VALID_TRANSITIONS table facts; every .status assignment reached on a handler path is validated, legal for every (from,to) the path condition allows, a listed re-arm/force-mark, or not durable; every other assignment site is listed; status columns have a closed writer set; store.pause() never overwrites a completed status (one listed known finding: NOT_STARTED -> PAUSED, encoded by existing tests); JumpToStage acts only on a source stage read RUNNING.",
            "Trusted: VALID_TRANSITIONS as written in models/status.py.", "5/C06"),
    "C07": ("SQL shape rules for every UPDATE of the stage/task tables + freshness of objects stored inside retried closures (path analysis) + exception-discipline scan",
            "Decides: every UPDATE is a version CAS whose failure raises ConcurrencyError before the in-memory bump; closed DML writer set; objects stored in a retry_on_concurrency_error closure are read inside it; no except clause swallows ConcurrencyError outside a reviewed list; rollback restores versions; the in-memory token advances by += 1 after the CAS or comes from the write's RETURNING, never from a separate read; no whole-context snapshot of an earlier read is written back onto a stage (any spelling); an INSERT on a versioned table never overwrites unchecked; a stage stored under conditions is stored from the read those conditions were tested on. Does not decide interleavings.",
            "Trusted: SQLite writer serialisation; reviewed swallow list in sa/rules/c07.py.", "5/C07"),
    "C08": ("SQL shape rules on every queue/DLQ statement + statement ordering in poll/move/replay + processor call-order scan + sibling agreement of the attempt limit",
            "Decides: claim is a CAS on (id, version) and the loser returns before touching the message; DLQ move/replay are DELETE..RETURNING + INSERT of the returned row in one commit; closed deleter set; ack only after the handler returned; reschedule keeps attempts; sweep reachable; the attempt limit is one quantity; the sweep takes every attempts-exhausted row; unhandled types raise. Does not decide timing / interleavings.",
            "Trusted: SQLite writer serialisation, datetime() granularity.", "5/C08"),
    "C09": ("truth table over the extracted dedup guard + structural invariants of the bloom filter + commit-sequence rule for the processed-mark + SQL shapes",
            "Decides: the durable record is consulted unless the filter is trusted, authoritative and negative; one deterministic position function, all positions set, bits only OR-ed; authority only after a complete hydrate, revoked by reset; the hydration listing returns every processed id; mark in the last commit and every effectful commit marks or flips its guard status, INSERT OR IGNORE without commit, same table/key as the lookup; the lookup never fails open; the retention sweep compares processed_at and its cutoff in one format.",
            "Trusted: hashlib determinism.", "5/C09"),
    "C10": ("effect analysis of the sweep on all its paths (pushes only) + who-may-call scan of recovery.py + control-dependence of every task-level message on the pending-message check + SQL shape of that check + commit-sequence shapes + receiver value sets + sibling agreement with ContinueParentStage",
            "Decides: the sweep never writes entity or dedup state; every RunTask/StartTask it builds is dominated by `not has_pending_message_for_task(that task)`; the pending check sees locked, delayed and retried messages alike and every task-carrying message has a task_id; all messages of one workflow are pushed in one transaction; the receivers of the unguarded messages act only on NOT_STARTED entities (RunTask: RUNNING); StartTask(first task) is re-queued only when the before-stages are complete, with the same status set ContinueParentStage uses; a duplicate StartStage re-plans a RUNNING stage only if no task and no synthetic child exists; a synthetic child is re-queued only under a parent-state gate; a NOT_STARTED workflow is restarted through StartWorkflow only (no stage-level message is built for it). Does not decide outcome equality with and without sweeps.",
            "Trusted: SQLite writer serialisation; C04 for the StartStage claim.", "5/C10"),
    "C11": ("ordering analysis on all paths of _start_if_ready (claims inside the claim transaction) + SQL/DDL shape rules for stage_claims",
            "Decides: mutex/choice claims are taken inside the claim transaction before the claiming store; a refused claim rolls back and never plans (mutex re-queues, choice cancels itself atomically); acquire_claim statement shapes and the unique key in schema and migration; claims only swept for completed executions; the winner cancels siblings of its own group; the deferred-choice fast path takes only a sibling that started for the winner (truth table over status x start_time). Does not decide interleavings or fairness.",
            "Trusted: SQLite unique-constraint semantics.", "5/C11"),
    "C05": ("decision table of _determine_final_status (extracted from the AST) + completeness/effectiveness of continuation pushes on all handler paths (commit-sequence analysis)",
            "Decides necessary conditions of progress: SUCCEEDED only under all-continuable (one listed known finding), TERMINAL dominates; every commit that stores the own stage completed pushes a continuation or is listed with a guard; every pushed continuation is accepted by its receiver in a status the commit stored; a normally returning path never leaves the own entity RUNNING without a continuation; every path that consumes its message without effect is taken under a reviewed condition (consume table) and wait sets only contain live children; an upward CompleteStage is pushed only for a halted child; validated status writes in error branches are legal; a lost claim is a duplicate only if the stage left NOT_STARTED; determine_status ranks a halted after-stage above unfinished ones; StartStage's wait budget applies to NOT_STARTED stages only (five listed known findings). _other_branches_incomplete counts every RUNNING / SUSPENDED / PAUSED stage and every ready NOT_STARTED stage (truth table); the element-wise core-work gate for pre-declared after-stages accepts exactly complete-and-not-halt; a task-result status CompleteTask stops at always travels with JumpToStage (one listed known finding: TaskResult.redirect() without target). Does not decide liveness over all arrival orders.",
            "Trusted: reviewed tables in sa/rules/c05.py (NO_CONTINUATION_OK, ACC, CONSUME_OK). Open known findings listed in known_findings.json (STOPPED => SUCCEEDED, plan CAS loss, before-child FAILED_CONTINUE, claim lost to a non-claiming writer).", "5/C05"),
    "C12": ("writer/reader agreement between recorder call sites on all handler paths and the replayer's apply cases + structural rules on the as_of cut and snapshot keys",
            "Decides: at every recorder call site on a handler path the status the replayer derives from the event equals the entity's status there; every regular durable status change of a stage/task/workflow has an event for that entity on its path (exceptions listed with reason); every emitted event type has an apply case; the as_of cut filters <= and only uses snapshots not newer than the cut; snapshot keys written = keys restored. The log follows the commit order: no event is recorded outside a transaction after a commit of the same path that released a follow-up message. Does not decide payload equality.",
            "Trusted: reviewed tables in sa/rules/c12.py (NO_EVENT_OK, NO_EVENT_SITES, EVENT_STATUS_OK).", "5/C12"),
    "C13": ("structural rules on the event scope / transaction context managers + event-in-transaction rule on all handler paths + SQL/DDL shape of the events table",
            "Decides: events recorded under an open scope are appended on the scope's connection and published only after the outermost commit; abort never publishes; the scope is closed before publication; completion events of CompleteTask/CompleteStage/SkipStage/CancelStage are inside the transaction that stores the completed status; no completion event is recorded before the commit that makes the state durable; sequence is AUTOINCREMENT and never supplied. The workflow outcome events obey the same rule; the join decision uses the connection manager's own key for 'same database'; the rollback path also covers BaseException.",
            "Trusted: SQLite atomic commit; event store in the same database (documented otherwise).", "5/C13"),
    "C14": ("guard extraction on handle_exception + def-use dataflow of the retry budget field through message construction, both serialisers, the queue columns and poll_one + commit-sequence rule",
            "Decides: a transient retry is reached only under is_transient and budget+1 < max_attempts, every other path marks TERMINAL; the retry message carries budget+1; the budget field survives push -> row -> poll -> message (not overwritten by a queue column); context_update and the retry push are one transaction on a freshly read stage; the saved progress is read from the failing exception then its causes nearest first; every INSERT into the queue starts the delivery counter at 0. Does not decide backoff durations.",
            "Trusted: reviewed field tables in sa/rules/c14.py.", "5/C14"),
    "C15": ("control-dependence of the StartStage push on the jump-count guard + def-use rules for the counter and limit + clear-set agreement between writers of join bookkeeping and reset_stage_for_retry + commit-sequence rule",
            "Decides: the jump push is control-dependent on _check_jump_count being True and the False branch fails the stage atomically; the limit test is >= with the documented precedence and default; the counter is incremented and written to both stages; resets keep the jump bookkeeping and clear every join bookkeeping key any writer sets; each jump is one transaction on freshly read stages; downstream collection only under all-prerequisites-in-scope. Does not decide exactness of the re-arm set for every DAG.",
            "Trusted: key tables read from the source, not hard-coded.", "5/C15"),
    "C16": ("def-use / structural rules on the ancestor merge (closure, Kahn order, overwrite and list rule) in every store implementation + statement-order rule in _plan_stage + sibling agreement of the two merge sites + inherited-key rule + commutativity shape of the order-insensitive reducers",
            "Decides the structural necessary conditions: merged stages = transitive requisites of the stage, itself excluded; a stage is merged after its requisites and later non-list values overwrite (nearest wins), lists concatenate; ancestors, then reducers, then own context (reducer keys protected); re-arm clears outputs and inherited keys are not overlaid as own at the next planning (current iteration); sum/max/min fold all branch values commutatively. Every result is reducer(all values of the branches in which the key is present); the outputs that enter the in-place merge are objects nobody else holds (no memoised decoder). Does not decide the resulting values for every DAG and schedule.",
            "Trusted: dict/set semantics of CPython.", "5/C16"),
    "C17": ("path-condition analysis of task execution on all RunTask paths + commit-sequence shapes of CancelWorkflow/CancelStage + SQL who-may-write for is_canceled",
            "Decides: a task body/timeout hook is executed only where the path condition has is_canceled False, the workflow not complete and the task RUNNING; cancel handlers have the reviewed atomic shapes and only write CANCELED to non-completed entities; is_canceled has one writer and is never reset; a CANCELED top-level stage yields CANCELED after the TERMINAL test. CancelWorkflow's fan-out covers every unfinished stage of the workflow; the handlers that wind a canceled workflow down consume a message without continuation only under reviewed conditions (consume table shared with C05). Does not decide liveness of cancellation.",
            "Trusted: SQLite writer serialisation.", "5/C17"),
    "C18": ("commit-sequence shapes of SignalStage and _handle_suspended on all paths + freshness of the stored stage + who-may-write scan of the mailbox key",
            "Decides: a signal either resumes a SUSPENDED stage, is appended to the durable mailbox of a persistent signal, or is only marked - each in one transaction with the mark; suspending consumes a buffered signal atomically (pop, write back, RUNNING, push) or parks without push; every mailbox/SUSPENDED store is a CAS store of a stage read inside the retried closure; closed writer set of _buffered_signals; resets keep it; planning copies own-only context values unchanged; a RunTask for an executing task is dropped only as a redelivery (one listed known finding). Deliver-or-buffer is decided on the copy that is written (decision/read coherence); every public HITL entry point sends a persistent signal by default. Does not decide the interleavings themselves.",
            "Trusted: optimistic-lock CAS + retry (C07).", "5/C18"),
    "C19": ("writer/reader table agreement: dataclass fields = INSERT columns = bound parameters = converter keywords ⊆ DDL columns; codec pairing per column; UPDATE column set; ORDER BY of task reads; message registry and serialiser agreement",
            "Decides the structural part of round-trip fidelity for workflows, stages, tasks and queue messages: no field is dropped or crossed between write and read, each column is decoded with the inverse of its encoder, task order is preserved by ORDER BY id, both message serialisers agree and every message type is registered. Does not decide value-level JSON fidelity.",
            "Trusted: listed exemptions in sa/rules/c19.py (transient fields).", "5/C19"),
    "C20": ("whitelist + escape analysis of the expression evaluator (may-raise table per operation vs. enclosing handlers), side-effect scan, caller discipline scan, structural rules on topological_sort / validate_stage_graph / Workflow.create",
            "Decides: the evaluator dispatches on a closed whitelist of side-effect-free node kinds with default deny and reaches no reflective or code-executing call; its operator tables hold reviewed operators; it writes nothing; every operation that can raise on some input is enclosed by a handler converting to ExpressionError (incl. parser and recursion limits); callers catch ExpressionError without re-raising and non-string conditions are rejected with it; topological_sort emits a stage only after its requisites and raises when stuck; validation order and Workflow.create calling it. Every Workflow factory that takes a stage list validates it. Does not decide completeness of validation or exotic context values.",
            "Trusted: reviewed OP_RAISES table in sa/rules/c20.py; CPython ast.parse exception set.", "5/C20"),
}

checks = []
for p in props:
    pid = p["id"]
    if pid not in CLAIMED:
        continue
    tech, text, note, ref = CLAIMED[pid]
    checks.append({
        "property_id": pid,
        "quick_cmd": f"./check {pid} --tier quick",
        "thorough_cmd": f"./check {pid} --tier thorough",
        "evidence_file": f"/verif/evidence/{pid}.json",
        "replay_cmd_template": "./check replay {path}",
        "engine": "sa",
        "level_claimed": {"category": "other", "text": text, "design_ref": f"DESIGN.md section {ref}"},
        "level_note": note,
        "technique": "static analysis: " + tech,
    })
m = {
    "version": 1,
    "setup_cmd": "true",
    "hooks": {
        "guard": "STABILIZE_VERIF",
        "enable": "no hooks: the checks read /repo's source tree and never run it; the guard variable is unused",
        "baseline_off_cmd": "cd /repo && /venv/bin/python -m pytest -q -p no:cacheprovider --timeout=900 -k 'not postgres' -n 8",
        "source_commits": [],
        "add_only": True,
    },
    "engines": [{"name": "sa", "path": "/verif/sa", "serves_properties": sorted(CLAIMED), "kind_free_text": "static analysis over the stdlib ast: program model, path-sensitive abstract interpreter with effect traces, SQL shape parser, writer/reader tables, truth tables over extracted guards"}],
    "checks": checks,
    "notes": "Static analysis only (no execution of the repository). See DESIGN.md. fix: commits in /repo are listed in known_findings.json.",
    "not_applicable": [{"property_id": p["id"], "reason": "no structural clause of this property could be decided soundly by static analysis (see DESIGN.md section 9)"} for p in props if p["id"] not in CLAIMED],
}
json.dump(m, open(os.path.join(V, "MANIFEST.json"), "w"), indent=1)
print("claimed", sorted(CLAIMED))
