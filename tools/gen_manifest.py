#!/usr/bin/env python3
"""Regenerates /verif/MANIFEST.json from the table below (run after adding a rule module)."""
import json
import os

V = os.path.dirname(os.path.dirname(os.path.abspath(__file__)))
props = [json.loads(l) for l in open(os.path.join(V, "properties.jsonl"))]

CLAIMED = {
    # id: (technique, level text, level note, design ref)
    "C01": ("commit-sequence typestate over all handler paths (path-sensitive abstract interpretation of the AST) + SQL shape rules",
            "Decides necessary structural clauses: processed-mark only in the last commit of every handler path, multi-commit paths restricted to reviewed shapes, unmarked commits flip the guard status, nothing commits inside a transaction body, recovery case split exhaustive, claim CAS expects the status read, poll re-admits lapsed locks. Does not decide outcome equality with an uninterrupted run.",
            "Trusted: CPython ast, SQLite atomic commit, reviewed tables in sa/rules/c01.py (multi-commit shapes, no-mark list). Loops 0/1, exceptions at calls only.", "5/C01"),
    "C02": ("truth table over the extracted dedup guard + value-set entry-guard analysis on all handler paths + who-may-call",
            "Decides: durable duplicate check dominates dispatch (16+ row truth table), every effectful commit of each handler is reached only with the addressed entity read in the step's start status, execute only under RUNNING / not canceled. Does not decide outcome equality under permutations.",
            "Trusted: status sets read from models/status.py, guard table in sa/rules/c02.py.", "5/C02"),
}

checks = []
for p in props:
    pid = p["id"]
    if pid not in CLAIMED:
        continue
    tech, text, note, ref = CLAIMED[pid]
    checks.append({
        "property_id": pid,
        "quick_cmd": f"./check {pid} --tier quick",
        "thorough_cmd": f"./check {pid} --tier thorough",
        "evidence_file": f"/verif/evidence/{pid}.json",
        "replay_cmd_template": "./check replay {path}",
        "engine": "sa",
        "level_claimed": {"category": "other", "text": text, "design_ref": f"DESIGN.md section {ref}"},
        "level_note": note,
        "technique": "static analysis: " + tech,
    })
m = {
    "version": 1,
    "setup_cmd": "true",
    "hooks": {
        "guard": "STABILIZE_VERIF",
        "enable": "no hooks: the checks read /repo's source tree and never run it; the guard variable is unused",
        "baseline_off_cmd": "cd /repo && /venv/bin/python -m pytest -q -p no:cacheprovider --timeout=900 -k 'not postgres' -n 8",
        "source_commits": [],
        "add_only": True,
    },
    "engines": [{"name": "sa", "path": "/verif/sa", "serves_properties": sorted(CLAIMED), "kind_free_text": "static analysis over the stdlib ast: program model, path-sensitive abstract interpreter with effect traces, SQL shape parser, writer/reader tables, truth tables over extracted guards"}],
    "checks": checks,
    "notes": "Static analysis only (no execution of the repository). See DESIGN.md. fix: commits in /repo are listed in known_findings.json.",
    "not_applicable": [{"property_id": p["id"], "reason": "check not built yet (build in progress; planned rules in DESIGN.md section 5)"} for p in props if p["id"] not in CLAIMED],
}
json.dump(m, open(os.path.join(V, "MANIFEST.json"), "w"), indent=1)
print("claimed", sorted(CLAIMED))
