#!/bin/sh
# validate_seed.sh <seed-dir-with-patch.diff-and-demo> <label>
# Confirms in a scratch worktree: demo passes without the patch, fails with it, full suite passes with it.
set -u
SEED="$1"; LABEL="$2"; WT="/tmp/val-$LABEL"
OUT="$SEED/validation.txt"
git -C /repo worktree remove --force "$WT" >/dev/null 2>&1
git -C /repo worktree add -q "$WT" HEAD || exit 2
DEMO=$(ls "$SEED" | grep -E '^(demo|test_demo).*\.py$' | head -1)
run_demo() { ( cd "$WT" && REPO_ROOT="$WT" REPO_SRC="$WT/src" PYTHONPATH="$WT/src" timeout 600 /venv/bin/python "$SEED/$DEMO" >/dev/null 2>&1; echo $? ); }
{
echo "seed=$LABEL head=$(git -C /repo rev-parse --short HEAD) demo=$DEMO"
echo "demo_without_patch_exit=$(run_demo)"
if git -C "$WT" apply --check "$SEED/patch.diff" 2>/dev/null; then
  git -C "$WT" apply "$SEED/patch.diff"; echo "patch_applies=yes"
else
  echo "patch_applies=no"; git -C /repo worktree remove --force "$WT"; exit 1
fi
echo "demo_with_patch_exit=$(run_demo)"
( cd "$WT" && PYTHONPATH="$WT/src" timeout 1500 /venv/bin/python -m pytest -q -p no:cacheprovider -n 6 -k "not postgres" --timeout=900 -rf > "/tmp/val-$LABEL.suite.log" 2>&1
  tail -1 "/tmp/val-$LABEL.suite.log" | sed 's/^/suite_with_patch: /'
  FAILED=$(grep -E "^FAILED " "/tmp/val-$LABEL.suite.log" | awk '{print $2}' | sort -u)
  for t in $FAILED; do
    echo "failed_under_load: $t"
    # a test that fails only under the parallel load of this sandbox is re-run alone (3 times) with the patch still applied
    ok=0; for i in 1 2 3; do PYTHONPATH="$WT/src" timeout 600 /venv/bin/python -m pytest -q -p no:cacheprovider "$t" >/dev/null 2>&1 && ok=$((ok+1)); done
    echo "rerun_alone: $t passed $ok/3"
  done
  rm -f "/tmp/val-$LABEL.suite.log" )
} > "$OUT" 2>&1
git -C /repo worktree remove --force "$WT" >/dev/null 2>&1
cat "$OUT"
